#!/bin/bash
# Development helper: verifies the seeded changes of a wave directory (/tmp/mut2): patch applies, demo passes without and fails with
# the change, repository suite passes with it, and which checks notice it. usage: wave_verify.sh <wave-dir> <budget_s> [Cxx/mN ...]
export GOFLAGS=-mod=mod GOPROXY=off GOSUMDB=off GOTOOLCHAIN=local
wave="$1"; budget="$2"; shift 2
sel="$*"; [ -z "$sel" ] && sel=$(cd $wave && ls -d out-*/m* | sed 's#out-##')
cd /verif || exit 2
[ -n "$(git -C /repo status --porcelain)" ] && { echo "/repo not clean"; exit 2; }
for x in $sel; do
  d=$wave/out-$x; prop=${x%%/*}
  read -r flags pkg <<<"$(python3 - "$d" <<'PY'
import json,re,sys
m=json.load(open(sys.argv[1]+'/meta.json'))
c=m['demo_cmd']
r=re.search(r"go test (.*?)\s(\./(?:vfs|idm)/\w+)/?", c)
flags=r.group(1).replace("'",""); print(flags.replace(' ','\x01'), r.group(2))
PY
)"
  flags=$(echo "$flags" | tr '\001' ' ')
  demo=$(ls $d/*_test.go | head -1); tgt=/repo/$pkg/zz_$(basename $demo)
  if ! git -C /repo apply --check $d/patch.diff 2>/dev/null; then echo "$x | PATCH DOES NOT APPLY"; continue; fi
  cp $demo $tgt
  (cd /repo && go test $flags -timeout 600s $pkg > /tmp/wv_clean.txt 2>&1); clean=$?
  git -C /repo apply $d/patch.diff
  builds=yes; (cd /repo && go build ./... 2>/dev/null) || builds=no
  (cd /repo && go test $flags -timeout 600s $pkg > /tmp/wv_mut.txt 2>&1); mut=$?
  rm -f $tgt
  suite=$(cd /repo && go test -vet=off -count=1 -timeout 25m ./... 2>&1 | grep -E "^(FAIL|ok)" | grep -v "vfs/osfs" | grep -v "^FAIL$" | grep -c FAIL)
  res=""
  for p in ${ONLY:-$prop} ${EXTRA:-}; do
    o=$(VERIF_BUDGET_S=$budget ./check "$p" 2>&1); code=$?
    first=$(echo "$o" | grep -m1 "class=.*signature=" | sed 's/^ *//' | cut -c1-160)
    v=missed; [ $code -eq 1 ] && v=caught; [ $code -ge 2 ] && v="broke($code)"
    res="$res $p:$v [$first]"
  done
  git -C /repo checkout -- . ; git -C /repo clean -fdq -- vfs idm
  echo "$x | builds=$builds demo_clean_exit=$clean demo_mutant_exit=$mut suite_fail_pkgs=$suite |$res"
done
