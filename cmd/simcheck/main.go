// Command simcheck is the single binary of the verification harness: parent (spawns workers,
// merges evidence), worker (seeded simulated runs of one property), replay, and kernel helper.
package main

import (
	"flag"
	"fmt"
	"os"
	"path/filepath"
	"runtime"
	"strconv"
	"time"

	"verif/props"
	"verif/sim"
)

func main() {
	var (
		prop     = flag.String("prop", "", "property id")
		tier     = flag.String("tier", "quick", "quick | thorough")
		seedF    = flag.String("seed", "", "VERIF_SEED override")
		worker   = flag.Bool("worker", false, "run as worker")
		w        = flag.Int("w", 0, "worker index")
		budget   = flag.Duration("budget", 0, "wall budget")
		out      = flag.String("out", "", "worker output dir")
		replays  = flag.String("replays", "", "replay dir")
		known    = flag.String("known", "", "known findings file")
		maxruns  = flag.Int64("maxruns", 0, "max runs per worker (0 = by budget)")
		replay   = flag.String("replay", "", "replay file")
		jobs     = flag.Int("jobs", 0, "workers")
		koracle  = flag.Bool("koracle", false, "run as kernel oracle helper")
		evidence = flag.String("evidence", "", "evidence file")
		variant  = flag.String("variant", "", "check variant")
		probe    = flag.String("probe", "", "run one tape file and print the result (used for shrinking in fresh processes)")
	)

	flag.Parse()

	if *koracle {
		os.Exit(props.KernelHelperMain())
	}

	root := os.Getenv("VERIF_ROOT")
	if root == "" {
		root = "/verif"
	}

	if *known == "" {
		*known = filepath.Join(root, "known_findings.json")
	}

	if *replays == "" {
		*replays = filepath.Join(root, "replays")
	}

	sim.Install()

	p := props.Lookup(*prop)
	if p == nil {
		fmt.Println("HARNESS: unknown property", *prop)
		os.Exit(2)
	}

	seed := uint64(20260926)

	if s := os.Getenv("VERIF_SEED"); s != "" {
		if v, err := strconv.ParseUint(s, 10, 64); err == nil {
			seed = v
		} else if v, err := strconv.ParseInt(s, 10, 64); err == nil {
			seed = uint64(v)
		}
	}

	if *seedF != "" {
		if v, err := strconv.ParseUint(*seedF, 10, 64); err == nil {
			seed = v
		}
	}

	if t := os.Getenv("VERIF_TIER"); t != "" && !*worker && flagNotSet("tier") {
		*tier = t
	}

	if *replay != "" {
		os.Exit(sim.RunReplay(p, *replay, *known))
	}

	if *probe != "" {
		os.Exit(sim.RunProbe(p, *probe, *known, *tier))
	}

	if *budget == 0 {
		*budget = 45 * time.Second
		if *tier == "thorough" {
			*budget = 12 * time.Minute
		}

		if s := os.Getenv("VERIF_BUDGET_S"); s != "" {
			if v, err := strconv.Atoi(s); err == nil {
				*budget = time.Duration(v) * time.Second
			}
		}
	}

	if *worker {
		os.Exit(sim.RunWorker(sim.WorkerConfig{
			Prop: p, Tier: *tier, Seed: seed, Worker: *w, Budget: *budget, MaxRuns: *maxruns,
			OutDir: *out, ReplayDir: *replays, KnownFile: *known, Variant: *variant,
		}))
	}

	if *jobs == 0 {
		*jobs = runtime.NumCPU()
		if *jobs > 16 {
			*jobs = 16
		}
	}

	if *evidence == "" {
		*evidence = filepath.Join(root, "evidence", p.ID()+".json")
	}

	self, _ := os.Executable()
	extra := []string{}

	if *variant != "" {
		extra = append(extra, "-variant", *variant)
	}

	var wenv []string

	if sim.RaceBuild {
		wenv = append(wenv, "GORACE=halt_on_error=0 exitcode=0 atexit_sleep_ms=0 log_path="+filepath.Join(root, ".work", "race", "log"))
		_ = os.RemoveAll(filepath.Join(root, ".work", "race"))
		_ = os.MkdirAll(filepath.Join(root, ".work", "race"), 0o755)
	}

	os.Exit(sim.RunParent(sim.ParentConfig{
		Prop: p, Tier: *tier, Seed: seed, Jobs: *jobs, Budget: *budget, MaxRuns: *maxruns,
		WorkDir: filepath.Join(root, ".work"), ReplayDir: *replays, KnownFile: *known, Evidence: *evidence,
		Self: self, ExtraArgs: extra, Variant: *variant, WorkerEnv: wenv,
	}))
}

func flagNotSet(name string) bool {
	set := false

	flag.Visit(func(f *flag.Flag) {
		if f.Name == name {
			set = true
		}
	})

	return !set
}
