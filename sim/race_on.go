//go:build race

package sim

import "runtime"

// RaceBuild reports whether the binary was built with -race.
const RaceBuild = true

//go:norace
func raceDisable() { runtime.RaceDisable() }

//go:norace
func raceEnable() { runtime.RaceEnable() }

// RaceErrors returns the number of data races reported so far.
func RaceErrors() int { return runtime.RaceErrors() }
