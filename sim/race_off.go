//go:build !race

package sim

// RaceBuild reports whether the binary was built with -race.
const RaceBuild = false

func raceDisable() {}

func raceEnable() {}

// RaceErrors returns the number of data races reported so far.
func RaceErrors() int { return 0 }
