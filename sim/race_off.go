//go:build !race

package sim

import "verif/fsx"

// RaceBuild reports whether the binary was built with -race.
const RaceBuild = false

func raceDisable() {}

func raceEnable() {}

// RaceErrors returns the number of data races reported so far.
func RaceErrors() int { return 0 }

func init() {
	// observations of the tree run under a budget of lock events (not in race builds: the counters are plain variables).
	fsx.Guard = GuardDirect
}
