package sim

import (
	"encoding/json"
	"fmt"
	"os"
	"os/exec"
	"path/filepath"
	"regexp"
	"sort"
	"strconv"
	"strings"
	"time"
)

// Violation is a property violation found in one run.
type Violation struct {
	Prop  string `json:"property"`
	Class string `json:"class"` // shrinking keeps the class
	Sig   string `json:"signature"`
	Msg   string `json:"message"`
}

// RunResult is what one simulated run reports.
type RunResult struct {
	Violation  *Violation
	Harness    string // non-empty: harness failure (exit 2), never a property verdict
	Nontrivial bool
	TraceHash  uint64
	Trace      any // human-readable trace (written to samples and replay files)
	Steps      int // logical time covered
	// Cases > 1: the run evaluated several cases (e.g. one history under every failure plan);
	// CaseHashes are the hashes of those that were non-trivial.
	Cases      int
	CaseHashes []uint64
	// Soft are violations after which the run went on (the oracle could neutralise them): each is
	// either a listed known finding (counted) or promoted to the run's violation.
	Soft []*Violation
	// OrderSensitive marks runs whose outcome may depend on Go map iteration order inside avfs.
	OrderSensitive bool
}

// Ctx is the per-worker context handed to properties.
type Ctx struct {
	Tier     string
	Worker   int
	Stats    map[string]int64
	Known    map[string]string // "prop|sig" -> note
	Avoid    map[string]bool   // signature prefixes the generators should avoid (filtered mode)
	KS       *KnownSet         // all open known findings, exact and by family
	Variant  string
	Shrink   bool // executing a shrink / replay attempt
	Cleanups []func()
	Aux      map[string]any
}

// Count adds to a named counter.
func (c *Ctx) Count(name string, n int64) { c.Stats[name] += n }

// Property is one check.
type Property interface {
	ID() string
	// Run executes one simulated run drawn from the tape.
	Run(c *Ctx, t *Tape) RunResult
	// Describe returns static evidence fields.
	Describe() Description
}

// Description is the static part of the evidence of a property.
type Description struct {
	Level       string
	Rule        string
	Explanation string
	Assumptions []string
	RealCode    []string
	Stubs       []string
}

// Replay is the replay file format.
type Replay struct {
	Property  string    `json:"property"`
	Tier      string    `json:"tier"`
	Seed      uint64    `json:"seed"`
	RunSeed   uint64    `json:"run_seed"`
	Violation Violation `json:"violation"`
	Tape      []uint32  `json:"tape"`
	TapeLen0  int       `json:"tape_len_before_shrink"`
	Trace     any       `json:"trace"`
	Note      string    `json:"note,omitempty"`
}

// Partial is the per-worker evidence.
type Partial struct {
	Worker      int              `json:"worker"`
	Runs        int64            `json:"runs"`
	Nontrivial  int64            `json:"nontrivial"`
	Hashes      []uint64         `json:"hashes"`
	Steps       int64            `json:"steps"`
	Stats       map[string]int64 `json:"stats"`
	Samples     []any            `json:"samples"`
	Violations  []Replay         `json:"violations"`
	ReplayFiles []string         `json:"replay_files"`
	KnownHits   map[string]int64 `json:"known_hits"`
	Harness     string           `json:"harness"`
	WallS       float64          `json:"wall_s"`
	FirstSeed   uint64           `json:"first_seed"`
	OrderSens   int64            `json:"order_sensitive"`
}

// KnownFinding is one entry of known_findings.json. An entry identifies its violations either by
// the exact signature or by a regular expression over the signature (a family of inputs with one root cause).
type KnownFinding struct {
	Property string `json:"property"`
	Sig      string `json:"signature"`
	SigRegex string `json:"signature_regex,omitempty"`
	Avoid    string `json:"avoid_regex,omitempty"` // over the part of a signature known before the call (generators steer clear of it)
	What     string `json:"what"`
	Status   string `json:"status"` // "open" or "fixed"
	Commit   string `json:"commit,omitempty"`
}

type knownRx struct {
	prop  string
	key   string
	re    *regexp.Regexp
	avoid *regexp.Regexp
}

// KnownSet answers whether a violation is a recorded known finding.
type KnownSet struct {
	exact map[string]string
	rx    []knownRx
}

// Match returns the key of the known finding that lists (prop, sig).
func (k *KnownSet) Match(prop, sig string) (string, bool) {
	if k == nil {
		return "", false
	}

	if _, ok := k.exact[prop+"|"+sig]; ok {
		return prop + "|" + sig, true
	}

	for i := range k.rx {
		if k.rx[i].prop == prop && k.rx[i].re.MatchString(sig) {
			return k.rx[i].key, true
		}
	}

	return "", false
}

// Avoided tells whether a call whose signature prefix is given belongs to a known finding of prop.
func (k *KnownSet) Avoided(prop, prefix string) bool {
	if k == nil {
		return false
	}

	for i := range k.rx {
		if k.rx[i].prop == prop && k.rx[i].avoid != nil && k.rx[i].avoid.MatchString(prefix) {
			return true
		}
	}

	return false
}

// NewKnownSet compiles the open findings.
func NewKnownSet(kf []KnownFinding) (*KnownSet, error) {
	ks := &KnownSet{exact: map[string]string{}}

	for _, f := range kf {
		if f.Status == "fixed" {
			continue
		}

		if f.SigRegex == "" {
			ks.exact[f.Property+"|"+f.Sig] = f.What

			continue
		}

		re, err := regexp.Compile(f.SigRegex)
		if err != nil {
			return nil, fmt.Errorf("known finding %q: %w", f.Sig, err)
		}

		r := knownRx{prop: f.Property, key: f.Property + "|" + f.Sig, re: re}

		if f.Avoid != "" {
			if r.avoid, err = regexp.Compile(f.Avoid); err != nil {
				return nil, fmt.Errorf("known finding %q: %w", f.Sig, err)
			}
		}

		ks.rx = append(ks.rx, r)
	}

	return ks, nil
}

// LoadKnown reads known_findings.json.
func LoadKnown(path string) ([]KnownFinding, error) {
	b, err := os.ReadFile(path)
	if err != nil {
		if os.IsNotExist(err) {
			return nil, nil
		}

		return nil, err
	}

	var f struct {
		Findings []KnownFinding `json:"findings"`
	}

	if err := json.Unmarshal(b, &f); err != nil {
		return nil, err
	}

	return f.Findings, nil
}

// WorkerConfig parametrises RunWorker.
type WorkerConfig struct {
	Prop      Property
	Tier      string
	Seed      uint64
	Worker    int
	Budget    time.Duration
	MaxRuns   int64
	OutDir    string
	ReplayDir string
	KnownFile string
	Variant   string
}

func knownMaps(kf []KnownFinding, prop string) (map[string]string, map[string]bool) {
	known := map[string]string{}
	avoid := map[string]bool{}

	for _, k := range kf {
		if k.Status == "fixed" || k.SigRegex != "" {
			continue
		}

		known[k.Property+"|"+k.Sig] = k.What

		if k.Property == prop {
			// the avoid key is the signature up to the want/got part.
			if i := strings.Index(k.Sig, " => "); i >= 0 {
				avoid[k.Sig[:i]] = true
			}
		}
	}

	return known, avoid
}

// RunWorker is the main loop of one worker process.
func RunWorker(cfg WorkerConfig) int {
	start := time.Now()
	kf, err := LoadKnown(cfg.KnownFile)

	if err != nil {
		fmt.Println("HARNESS: cannot read known findings:", err)

		return 2
	}

	known, avoid := knownMaps(kf, cfg.Prop.ID())

	ks, err := NewKnownSet(kf)
	if err != nil {
		fmt.Println("HARNESS:", err)

		return 2
	}

	ctx := &Ctx{
		Tier: cfg.Tier, Worker: cfg.Worker, Stats: map[string]int64{}, Known: known, Avoid: avoid, KS: ks,
		Variant: cfg.Variant, Aux: map[string]any{},
	}

	defer func() {
		for _, f := range ctx.Cleanups {
			f()
		}
	}()

	part := Partial{Worker: cfg.Worker, Stats: ctx.Stats, KnownHits: map[string]int64{}}
	seen := map[uint64]bool{}
	vioSigs := map[string]bool{}
	deadline := start.Add(cfg.Budget)
	wseed := MixSeed(cfg.Seed, HashString(cfg.Prop.ID()), uint64(cfg.Worker))
	part.FirstSeed = wseed
	exit := 0
	tainted := false

	var runLog *os.File

	if name := os.Getenv("VERIF_RUNLOG"); name != "" {
		if f, err := os.OpenFile(fmt.Sprintf("%s.w%d", name, cfg.Worker), os.O_CREATE|os.O_WRONLY|os.O_TRUNC, 0o644); err == nil {
			runLog = f

			defer f.Close()
		}
	}

	for i := int64(0); ; i++ {
		if cfg.MaxRuns > 0 && i >= cfg.MaxRuns {
			break
		}

		if i%8 == 0 && time.Now().After(deadline) {
			break
		}

		runSeed := MixSeed(wseed, uint64(i))
		tape := NewTape(runSeed)
		ctx.Shrink = false
		Overrun = ""
		res := RunGuarded(func() RunResult { return cfg.Prop.Run(ctx, tape) })
		part.Runs++

		if Overrun != "" {
			// an observation of the tree (direct calls of the harness) was cut: some library call does not return
			// on the state this run reached. That is C07's verdict, whichever check meets it; the instance may be
			// left with locks held, so nothing is shrunk and the worker ends after reporting.
			res.Harness = ""
			res.Violation = &Violation{
				Prop: "C07", Class: "hang-busy", Sig: "a library call made to observe the tree does not return",
				Msg: "while observing the tree after this run: " + Overrun,
			}
		}

		if runLog != nil {
			// determinism self-test: everything a run decided and observed, one line per run.
			sig := "-"
			if res.Violation != nil {
				sig = res.Violation.Sig
			}

			fmt.Fprintf(runLog, "%d %d tape=%x trace=%x steps=%d cases=%d nontrivial=%v ordersens=%v sig=%s\n", i, runSeed,
				HashString(fmt.Sprint(tape.Used())), res.TraceHash, res.Steps, res.Cases, res.Nontrivial, res.OrderSensitive, sig)

			if os.Getenv("VERIF_RUNLOG_TRACE") != "" && res.Trace != nil {
				b, _ := json.Marshal(res.Trace)
				fmt.Fprintf(runLog, "  %s\n", b)
			}
		}

		if res.Cases > 1 {
			part.Runs += int64(res.Cases - 1)
		}

		for _, h := range res.CaseHashes {
			if !seen[h] {
				seen[h] = true
				part.Nontrivial++
			}
		}
		part.Steps += int64(res.Steps)

		if res.OrderSensitive {
			part.OrderSens++
		}

		if res.Harness != "" {
			part.Harness = fmt.Sprintf("run seed %d: %s", runSeed, res.Harness)
			exit = 2

			break
		}

		if res.Nontrivial && !seen[res.TraceHash] {
			seen[res.TraceHash] = true
			part.Nontrivial++

			if len(part.Samples) < 2 && res.Trace != nil {
				part.Samples = append(part.Samples, res.Trace)
			}
		}

		for _, sv := range res.Soft {
			if key, ok := ks.Match(sv.Prop, sv.Sig); ok {
				part.KnownHits[key]++
			} else if res.Violation == nil {
				res.Violation = sv
			}
		}

		if res.Violation == nil {
			continue
		}

		v := res.Violation
		key := v.Prop + "|" + v.Sig

		if kkey, ok := ks.Match(v.Prop, v.Sig); ok {
			part.KnownHits[kkey]++

			continue
		}

		if os.Getenv("VERIF_SURVEY") != "" {
			// development: count unlisted signatures instead of shrinking and reporting them.
			ctx.Count("survey|"+v.Sig, 1)

			continue
		}

		if vioSigs[key] {
			ctx.Count("violations_duplicate_signature", 1)

			continue
		}

		vioSigs[key] = true

		// shrink while the same class (and property) persists and the result is not a known finding.
		rec := tape.Used()
		orig := len(rec)
		budget := 4000
		shrinkDeadline := time.Now().Add(15 * time.Second)

		if cfg.Tier == "thorough" {
			budget = 20000
			shrinkDeadline = time.Now().Add(60 * time.Second)
		}

		if v.Class == "hang" {
			budget = 40
		}

		if v.Class == "hang-busy" {
			// a client goroutine is spinning inside avfs and cannot be unwound: no shrinking
			// (every attempt would cost a watchdog period and leak another goroutine); the
			// worker reports what it has and ends.
			budget = 0
			tainted = true
		}

		final := res
		ctx.Shrink = true

		runOnce := func(c []uint32) RunResult {
			return RunGuarded(func() RunResult { return cfg.Prop.Run(ctx, ReplayTape(c)) })
		}

		if es, ok := cfg.Prop.(interface{ ExternalShrink() bool }); ok && es.ExternalShrink() {
			// verdicts that a process reports only once (race detector): every candidate runs in a fresh process.
			budget = 400
			runOnce = func(c []uint32) RunResult { return probeExternal(cfg, c) }
		}

		shrunk := Shrink(rec, budget, func(c []uint32) bool {
			if time.Now().After(shrinkDeadline) {
				return false
			}

			r := runOnce(c)
			promoteSoft(&r, ks)

			if r.Violation == nil || r.Violation.Prop != v.Prop || r.Violation.Class != v.Class {
				return false
			}

			if _, ok := ks.Match(r.Violation.Prop, r.Violation.Sig); ok {
				return false
			}

			final = r

			return true
		})
		ctx.Shrink = false

		// re-run the shrunk tape to obtain its exact trace.
		rt := ReplayTape(shrunk)
		r2 := RunResult{}

		if !tainted {
			ctx.Shrink = true
			r2 = runOnce(shrunk)
			promoteSoft(&r2, ks)
			ctx.Shrink = false

			if r2.Trace == nil {
				r2.Trace = final.Trace
			}
		}

		if r2.Violation != nil && r2.Violation.Prop == v.Prop && r2.Violation.Class == v.Class {
			final = r2
			if u := rt.Used(); len(u) > 0 {
				shrunk = u
			}
		} else {
			// shrinking result does not reproduce (order-sensitive run): fall back to the original tape.
			shrunk = rec
			final = res
		}

		rp := Replay{
			Property: v.Prop, Tier: cfg.Tier, Seed: cfg.Seed, RunSeed: runSeed, Violation: *final.Violation,
			Tape: shrunk, TapeLen0: orig, Trace: final.Trace,
		}

		if final.OrderSensitive {
			rp.Note = "order_sensitive: outcome may depend on Go map iteration order inside avfs; replay retries"
		}

		name := fmt.Sprintf("%s-%d-w%d-%d.json", cfg.Prop.ID(), cfg.Seed, cfg.Worker, len(part.Violations))
		path := filepath.Join(cfg.ReplayDir, name)
		_ = os.MkdirAll(cfg.ReplayDir, 0o755)

		b, _ := json.MarshalIndent(rp, "", " ")
		_ = os.WriteFile(path, b, 0o644)

		part.Violations = append(part.Violations, rp)
		part.ReplayFiles = append(part.ReplayFiles, path)
		exit = 1

		if len(part.Violations) >= 3 || tainted {
			break
		}
	}

	part.WallS = time.Since(start).Seconds()
	part.Hashes = make([]uint64, 0, len(seen))

	for h := range seen {
		part.Hashes = append(part.Hashes, h)
	}

	sort.Slice(part.Hashes, func(i, j int) bool { return part.Hashes[i] < part.Hashes[j] })

	b, _ := json.Marshal(part)
	_ = os.MkdirAll(cfg.OutDir, 0o755)
	_ = os.WriteFile(filepath.Join(cfg.OutDir, fmt.Sprintf("part-%d.json", cfg.Worker)), b, 0o644)

	return exit
}

// ParentConfig parametrises RunParent.
type ParentConfig struct {
	Prop       Property
	Tier       string
	Seed       uint64
	Jobs       int
	Budget     time.Duration
	MaxRuns    int64
	WorkDir    string
	ReplayDir  string
	KnownFile  string
	Evidence   string
	Self       string   // path of the worker binary
	ExtraArgs  []string // forwarded to workers
	Variant    string
	WorkerEnv  []string
	BuildNotes []string
}

// RunParent spawns the workers, merges their evidence and prints the verdict lines.
func RunParent(cfg ParentConfig) int {
	start := time.Now()
	id := cfg.Prop.ID()
	out := filepath.Join(cfg.WorkDir, id+"-"+cfg.Tier)
	_ = os.RemoveAll(out)
	_ = os.MkdirAll(out, 0o755)

	fmt.Printf("VERIF_SEED=%d property=%s tier=%s jobs=%d budget=%s\n", cfg.Seed, id, cfg.Tier, cfg.Jobs, cfg.Budget)

	type wres struct {
		w    int
		code int
		out  string
	}

	ch := make(chan wres, cfg.Jobs)

	for w := 0; w < cfg.Jobs; w++ {
		go func(w int) {
			args := []string{
				"-worker", "-prop", id, "-tier", cfg.Tier, "-seed", strconv.FormatUint(cfg.Seed, 10),
				"-w", strconv.Itoa(w), "-budget", cfg.Budget.String(), "-out", out, "-replays", cfg.ReplayDir,
				"-known", cfg.KnownFile, "-maxruns", strconv.FormatInt(cfg.MaxRuns, 10),
			}
			args = append(args, cfg.ExtraArgs...)
			cmd := exec.Command(cfg.Self, args...)
			cmd.Env = append(os.Environ(), cfg.WorkerEnv...)
			cmd.Env = append(cmd.Env, "GOMAXPROCS=2", fmt.Sprintf("VERIF_WORKER=%d", w))
			// safety net: a worker that is still running long after its budget (a library call spinning outside
			// the scheduler's reach) is killed and counted as a harness failure, never as a verdict.
			grace := 3*cfg.Budget + 3*time.Minute
			timer := time.AfterFunc(cfg.Budget+grace, func() {
				if cmd.Process != nil {
					_ = cmd.Process.Kill()
				}
			})

			b, err := cmd.CombinedOutput()
			timer.Stop()

			code := 0

			if err != nil {
				code = 2

				if ee, ok := err.(*exec.ExitError); ok {
					code = ee.ExitCode()
				}
			}

			ch <- wres{w, code, string(b)}
		}(w)
	}

	harness := ""
	worst := 0
	crashed := []string{}

	for i := 0; i < cfg.Jobs; i++ {
		r := <-ch

		if r.code != 0 && r.code != 1 {
			if harness == "" {
				harness = fmt.Sprintf("worker %d exited with %d: %s", r.w, r.code, tail(r.out, 2000))
			}

			crashed = append(crashed, fmt.Sprintf("worker %d exit %d", r.w, r.code))
		}

		if r.code > worst {
			worst = r.code
		}

		if s := strings.TrimSpace(r.out); s != "" && os.Getenv("VERIF_VERBOSE") != "" {
			fmt.Printf("--- worker %d output ---\n%s\n", r.w, s)
		}
	}

	// merge
	var (
		runs, nontrivSum, steps, orderSens int64
		stats                              = map[string]int64{}
		knownHits                          = map[string]int64{}
		hashes                             = map[uint64]bool{}
		samples                            []any
		violations                         []Replay
		replayFiles                        []string
		maxWall                            float64
	)

	for w := 0; w < cfg.Jobs; w++ {
		b, err := os.ReadFile(filepath.Join(out, fmt.Sprintf("part-%d.json", w)))
		if err != nil {
			if harness == "" {
				harness = fmt.Sprintf("worker %d wrote no evidence", w)
			}

			continue
		}

		var p Partial
		if err := json.Unmarshal(b, &p); err != nil {
			harness = "bad partial evidence: " + err.Error()

			continue
		}

		runs += p.Runs
		nontrivSum += p.Nontrivial
		steps += p.Steps
		orderSens += p.OrderSens

		for k, v := range p.Stats {
			stats[k] += v
		}

		for k, v := range p.KnownHits {
			knownHits[k] += v
		}

		for _, h := range p.Hashes {
			hashes[h] = true
		}

		if len(samples) < 3 {
			samples = append(samples, p.Samples...)
		}

		violations = append(violations, p.Violations...)
		replayFiles = append(replayFiles, p.ReplayFiles...)

		if p.Harness != "" && harness == "" {
			harness = p.Harness
		}

		if p.WallS > maxWall {
			maxWall = p.WallS
		}
	}

	if len(samples) > 3 {
		samples = samples[:3]
	}

	wall := time.Since(start).Seconds()
	d := cfg.Prop.Describe()

	kfKeys := make([]string, 0, len(knownHits))
	for k := range knownHits {
		kfKeys = append(kfKeys, k)
	}

	sort.Strings(kfKeys)

	kf, _ := LoadKnown(cfg.KnownFile)
	what := map[string]string{}

	for _, k := range kf {
		what[k.Property+"|"+k.Sig] = k.What
	}

	for _, k := range kfKeys {
		parts := strings.SplitN(k, "|", 2)
		fmt.Printf("KNOWN-FINDING: property=%s %s [%s] (hit %d times)\n", parts[0], what[k], parts[1], knownHits[k])
	}

	perHour := func(n int64) int64 {
		if wall <= 0 {
			return 0
		}

		return int64(float64(n) / wall * 3600)
	}

	cov := map[string]any{
		"evaluations":          runs,
		"distinct_nontrivial":  int64(len(hashes)),
		"rule":                 d.Rule,
		"samples":              samples,
		"explanation":          d.Explanation,
		"runs_per_hour":        perHour(runs),
		"seeds_per_hour":       perHour(runs),
		"simulated_steps":      steps,
		"counters":             stats,
		"known_finding_hits":   knownHits,
		"order_sensitive_runs": orderSens,
		"workers":              cfg.Jobs,
		"real_code":            d.RealCode,
		"stubs":                d.Stubs,
		"exhaustive":           false,
	}

	if len(samples) == 0 {
		cov["samples"] = []any{"no non-trivial run completed"}
	}

	ev := map[string]any{
		"property_id": id,
		"tier":        cfg.Tier,
		"seed":        int64(cfg.Seed & 0x7fffffffffffffff),
		"level":       d.Level,
		"coverage":    cov,
		"assumptions": d.Assumptions,
		"wall_s":      wall,
		"violations":  len(violations),
	}

	if harness != "" {
		ev["harness_failure"] = harness
	}

	if len(cfg.BuildNotes) > 0 {
		ev["build"] = cfg.BuildNotes
	}

	b, _ := json.MarshalIndent(ev, "", " ")
	_ = os.MkdirAll(filepath.Dir(cfg.Evidence), 0o755)

	if err := os.WriteFile(cfg.Evidence, b, 0o644); err != nil {
		fmt.Println("HARNESS: cannot write evidence:", err)

		return 2
	}

	fmt.Printf("runs=%d distinct_nontrivial=%d steps=%d wall=%.1fs\n", runs, len(hashes), steps, wall)

	// print counters compactly
	keys := make([]string, 0, len(stats))
	for k := range stats {
		keys = append(keys, k)
	}

	sort.Strings(keys)

	for _, k := range keys {
		fmt.Printf("  %s=%d\n", k, stats[k])
	}

	for i, v := range violations {
		fmt.Printf("VIOLATION property=%s replay=%s\n", v.Property, replayFiles[i])
		fmt.Printf("  class=%s signature=%s\n  %s\n", v.Violation.Class, v.Violation.Sig, v.Violation.Msg)
	}

	if len(violations) > 0 {
		return 1
	}

	if harness != "" {
		fmt.Println("HARNESS-FAILURE:", harness, strings.Join(crashed, "; "))

		return 2
	}

	if runs == 0 || len(hashes) < 2 {
		fmt.Println("HARNESS-FAILURE: nothing explored")

		return 2
	}

	return 0
}

func tail(s string, n int) string {
	if len(s) <= n {
		return s
	}

	return s[len(s)-n:]
}

// RunReplay executes a replay file and reports whether the violation reproduces.
func RunReplay(p Property, path, knownFile string) int {
	b, err := os.ReadFile(path)
	if err != nil {
		fmt.Println("HARNESS:", err)

		return 2
	}

	var rp Replay
	if err := json.Unmarshal(b, &rp); err != nil {
		fmt.Println("HARNESS:", err)

		return 2
	}

	if rp.Property != p.ID() {
		fmt.Printf("HARNESS: replay file is for %s, not %s\n", rp.Property, p.ID())

		return 2
	}

	kf, _ := LoadKnown(knownFile)
	known, avoid := knownMaps(kf, p.ID())
	ks, _ := NewKnownSet(kf)
	attempts := 1

	if rp.Note != "" {
		attempts = 16
	}

	var last RunResult

	for i := 0; i < attempts; i++ {
		ctx := &Ctx{Tier: rp.Tier, Stats: map[string]int64{}, Known: known, Avoid: avoid, KS: ks, Shrink: true, Aux: map[string]any{}}
		Overrun = ""
		last = RunGuarded(func() RunResult { return p.Run(ctx, ReplayTape(rp.Tape)) })

		if Overrun != "" {
			last.Violation = &Violation{Prop: "C07", Class: "hang-busy", Sig: "a library call made to observe the tree does not return", Msg: Overrun}
		}
		promoteSoft(&last, ks)

		for _, f := range ctx.Cleanups {
			f()
		}

		if last.Harness != "" {
			fmt.Println("HARNESS:", last.Harness)

			return 2
		}

		if last.Violation != nil && last.Violation.Prop == rp.Violation.Prop && last.Violation.Class == rp.Violation.Class &&
			last.Violation.Sig == rp.Violation.Sig {
			tb, _ := json.MarshalIndent(last.Trace, "", " ")
			fmt.Printf("replay reproduces (attempt %d)\nVIOLATION property=%s replay=%s\n  class=%s signature=%s\n  %s\ntrace:\n%s\n",
				i+1, rp.Property, path, last.Violation.Class, last.Violation.Sig, last.Violation.Msg, tb)

			return 1
		}
	}

	if last.Violation != nil {
		fmt.Printf("replay diverged: recorded %s/%s, now %s/%s: %s\n", rp.Violation.Class, rp.Violation.Sig,
			last.Violation.Class, last.Violation.Sig, last.Violation.Msg)

		return 2
	}

	fmt.Println("replay does not reproduce a violation on this tree (recorded: " + rp.Violation.Msg + ")")

	return 0
}

// ProbeResult is what a probe process prints.
type ProbeResult struct {
	Violation *Violation `json:"violation"`
	Harness   string     `json:"harness,omitempty"`
	Trace     any        `json:"trace,omitempty"`
}

// probeExternal runs one tape in a fresh process of the same binary.
func probeExternal(cfg WorkerConfig, tape []uint32) RunResult {
	self, err := os.Executable()
	if err != nil {
		return RunResult{}
	}

	_ = os.MkdirAll(cfg.OutDir, 0o755)
	f := filepath.Join(cfg.OutDir, fmt.Sprintf("probe-%d.json", cfg.Worker))
	b, _ := json.Marshal(tape)

	if err := os.WriteFile(f, b, 0o644); err != nil {
		return RunResult{}
	}

	cmd := exec.Command(self, "-probe", f, "-prop", cfg.Prop.ID(), "-tier", cfg.Tier, "-known", cfg.KnownFile)
	cmd.Env = os.Environ()
	out, _ := cmd.Output()

	var pr ProbeResult
	if json.Unmarshal(out, &pr) != nil {
		return RunResult{}
	}

	return RunResult{Violation: pr.Violation, Trace: pr.Trace}
}

// RunProbe executes one tape and prints the result as JSON.
func RunProbe(p Property, tapeFile, knownFile, tier string) int {
	b, err := os.ReadFile(tapeFile)
	if err != nil {
		return 2
	}

	var tape []uint32
	if json.Unmarshal(b, &tape) != nil {
		return 2
	}

	kf, _ := LoadKnown(knownFile)
	known, avoid := knownMaps(kf, p.ID())
	ks, _ := NewKnownSet(kf)
	ctx := &Ctx{Tier: tier, Stats: map[string]int64{}, Known: known, Avoid: avoid, KS: ks, Shrink: true, Aux: map[string]any{}}
	r := RunGuarded(func() RunResult { return p.Run(ctx, ReplayTape(tape)) })

	for _, f := range ctx.Cleanups {
		f()
	}

	promoteSoft(&r, ks)

	out, _ := json.Marshal(ProbeResult{Violation: r.Violation, Harness: r.Harness, Trace: r.Trace})
	fmt.Println(string(out))

	return 0
}

// promoteSoft makes the first soft violation that is not a known finding the violation of the run.
func promoteSoft(r *RunResult, ks *KnownSet) {
	if r.Violation != nil {
		return
	}

	for _, sv := range r.Soft {
		if _, ok := ks.Match(sv.Prop, sv.Sig); !ok {
			r.Violation = sv

			return
		}
	}
}
