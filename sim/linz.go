package sim

import (
	"time"

	"github.com/anishathalye/porcupine"
)

// HistOp is one completed call of a concurrent history.
type HistOp struct {
	Client int
	Index  int
	In     any
	Out    string
	Call   uint64
	Ret    uint64
}

// LinResult is the verdict of the linearizability check.
type LinResult int

const (
	LinOK LinResult = iota
	LinIllegal
	LinUnknown
)

// CheckLin checks a history against a sequential model whose state is a comparable value
// (a canonical string). step returns whether out is a legal result of in at state, and the next state.
func CheckLin(hist []HistOp, init string, step func(state string, in any, out string) (bool, string), timeout time.Duration) LinResult {
	return CheckLinEq(hist, init, step, func(a, b string) bool { return a == b }, timeout)
}

// CheckLinEq is CheckLin with a custom state equivalence.
func CheckLinEq(hist []HistOp, init string, step func(state string, in any, out string) (bool, string),
	eq func(a, b string) bool, timeout time.Duration,
) LinResult {
	m := porcupine.Model{
		Init: func() interface{} { return init },
		Step: func(st, in, out interface{}) (bool, interface{}) {
			ok, ns := step(st.(string), in, out.(string))

			return ok, ns
		},
		Equal: func(a, b interface{}) bool { return eq(a.(string), b.(string)) },
	}

	ops := make([]porcupine.Operation, len(hist))
	for i, h := range hist {
		ops[i] = porcupine.Operation{ClientId: h.Client, Input: h.In, Call: int64(h.Call), Output: h.Out, Return: int64(h.Ret)}
	}

	switch porcupine.CheckOperationsTimeout(m, ops, timeout) {
	case porcupine.Ok:
		return LinOK
	case porcupine.Illegal:
		return LinIllegal
	default:
		return LinUnknown
	}
}
