// Package sim is the deterministic simulator shared by all checks: one choice tape per run
// (every random decision of workload, schedule and faults), a serialising scheduler at
// lock-acquisition granularity, tape shrinking, replay files and evidence accounting.
package sim

// Tape is the single source of nondeterminism of one simulated run.
// In generation mode choices come from a PRNG seeded with the run seed and are recorded;
// in replay mode they come from the recorded list (missing entries read as 0).
// Zero is always the "simplest" choice, so that shrinking a tape (deleting and lowering
// entries) yields fewer operations, fewer context switches and fewer faults.
type Tape struct {
	Rec    []uint32
	pos    int
	state  uint64
	replay bool
}

// SplitMix64 is the seed mixer used everywhere (run seeds, worker seeds).
func SplitMix64(x uint64) uint64 {
	x += 0x9e3779b97f4a7c15
	x = (x ^ (x >> 30)) * 0xbf58476d1ce4e5b9
	x = (x ^ (x >> 27)) * 0x94d049bb133111eb

	return x ^ (x >> 31)
}

// MixSeed derives a seed from a base seed and any number of integers.
func MixSeed(base uint64, parts ...uint64) uint64 {
	x := SplitMix64(base)
	for _, p := range parts {
		x = SplitMix64(x ^ SplitMix64(p))
	}

	return x
}

// HashString is FNV-1a 64.
func HashString(s string) uint64 {
	h := uint64(14695981039346656037)
	for i := 0; i < len(s); i++ {
		h ^= uint64(s[i])
		h *= 1099511628211
	}

	return h
}

// NewTape returns a generating tape.
func NewTape(seed uint64) *Tape {
	return &Tape{state: SplitMix64(seed)}
}

// ReplayTape returns a tape that replays rec.
func ReplayTape(rec []uint32) *Tape {
	cp := make([]uint32, len(rec))
	copy(cp, rec)

	return &Tape{Rec: cp, replay: true}
}

func (t *Tape) next() uint32 {
	if t.replay {
		if t.pos >= len(t.Rec) {
			t.Rec = append(t.Rec, 0)
		}

		v := t.Rec[t.pos]
		t.pos++

		return v
	}

	t.state += 0x9e3779b97f4a7c15
	z := t.state
	z = (z ^ (z >> 30)) * 0xbf58476d1ce4e5b9
	z = (z ^ (z >> 27)) * 0x94d049bb133111eb
	z ^= z >> 31
	v := uint32(z >> 32)
	t.Rec = append(t.Rec, v)
	t.pos++

	return v
}

// Used returns the entries consumed so far.
func (t *Tape) Used() []uint32 {
	cp := make([]uint32, t.pos)
	copy(cp, t.Rec[:t.pos])

	return cp
}

// Int returns a value in [0,n). n <= 1 consumes nothing.
func (t *Tape) Int(n int) int {
	if n <= 1 {
		return 0
	}

	v := t.next()
	if t.replay {
		return int(v % uint32(n))
	}

	// store the reduced value so that the tape is canonical and shrinks well.
	r := v % uint32(n)
	t.Rec[t.pos-1] = r

	return int(r)
}

// Range returns a value in [lo,hi].
func (t *Tape) Range(lo, hi int) int {
	if hi <= lo {
		return lo
	}

	return lo + t.Int(hi-lo+1)
}

// Chance is true with probability permille/1000; the zero choice is false.
func (t *Tape) Chance(permille int) bool {
	if permille <= 0 {
		return false
	}

	if permille >= 1000 {
		return true
	}

	return t.Int(1000) >= 1000-permille
}

// Pick returns one of the strings.
func (t *Tape) Pick(xs []string) string {
	if len(xs) == 0 {
		return ""
	}

	return xs[t.Int(len(xs))]
}

// Weighted returns an index drawn proportionally to weights (index 0 for the zero choice
// when weights[0] > 0).
func (t *Tape) Weighted(weights []int) int {
	total := 0
	for _, w := range weights {
		total += w
	}

	if total <= 0 {
		return 0
	}

	v := t.Int(total)
	for i, w := range weights {
		if v < w {
			return i
		}

		v -= w
	}

	return len(weights) - 1
}

// Shrink minimises a failing tape. test must return true when the tape still produces
// the same violation class. It stops after maxRuns executions of test.
func Shrink(rec []uint32, maxRuns int, test func([]uint32) bool) []uint32 {
	best := make([]uint32, len(rec))
	copy(best, rec)

	runs := 0
	try := func(c []uint32) bool {
		if runs >= maxRuns {
			return false
		}

		runs++

		return test(c)
	}

	// trailing zeros are implicit
	trim := func(c []uint32) []uint32 {
		for len(c) > 0 && c[len(c)-1] == 0 {
			c = c[:len(c)-1]
		}

		return c
	}

	best = trim(best)
	improved := true

	for improved && runs < maxRuns {
		improved = false

		// delete chunks
		var sizes []int
		for size := len(best) / 2; size > 8; size /= 2 {
			sizes = append(sizes, size)
		}

		for size := 8; size >= 1; size-- {
			sizes = append(sizes, size)
		}

		for _, size := range sizes {
			for i := 0; i+size <= len(best); {
				c := make([]uint32, 0, len(best)-size)
				c = append(c, best[:i]...)
				c = append(c, best[i+size:]...)

				if try(c) {
					best = trim(c)
					improved = true
				} else {
					i += size
				}

				if runs >= maxRuns {
					break
				}
			}
		}

		// zero, then lower entries
		for i := 0; i < len(best) && runs < maxRuns; i++ {
			if best[i] == 0 {
				continue
			}

			c := make([]uint32, len(best))
			copy(c, best)
			c[i] = 0

			if try(c) {
				best = trim(c)
				improved = true

				continue
			}

			for v := best[i] / 2; v > 0 && v < best[i]; {
				copy(c, best)
				c[i] = v

				if try(c) {
					best = c
					improved = true
					c = make([]uint32, len(best))
					v = best[i] / 2
				} else {
					break
				}
			}

			if i < len(best) && best[i] > 1 {
				copy(c, best)
				c[i] = best[i] - 1

				if try(c) {
					best = c
					improved = true
				}
			}
		}
	}

	return best
}

// Ints converts a decision list for JSON output.
func Ints(d []uint8) []int {
	out := make([]int, len(d))
	for i, v := range d {
		out[i] = int(v)
	}

	return out
}
