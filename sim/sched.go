package sim

import (
	"bytes"
	"errors"
	"fmt"
	"runtime"
	"runtime/debug"
	"strconv"
	"sync"
	"time"

	"github.com/avfs/avfs"
)

// Limits of one simulated run. They bound fixed-size arrays because code that runs on
// client goroutines must not touch maps or append (the race-enabled runtime instruments
// those itself, which would make the hidden hand-offs visible as false races).
const (
	MaxClients = 8
	MaxMutex   = 8192
	slotBits   = 14
	slotMask   = 1<<slotBits - 1
)

var epochCounter uint32 //nolint:gochecknoglobals // run counter, main goroutine only.

// Verdict of a run as decided by the scheduler.
type Verdict int

const (
	VOK Verdict = iota
	VDeadlock
	VHang
	VPanic
	VHarness // harness limit or mismatch: never a property verdict
)

func (v Verdict) String() string {
	switch v {
	case VOK:
		return "ok"
	case VDeadlock:
		return "deadlock"
	case VHang:
		return "hang"
	case VPanic:
		return "panic"
	default:
		return "harness"
	}
}

type mstate struct {
	writer   int8 // client index or -1
	nreaders int16
	readers  [MaxClients]int16
	waitW    uint16 // bitmask of clients waiting for the write lock
	waitR    uint16 // bitmask of clients waiting for a read lock
	grantedR uint16 // readers admitted by an Unlock while parked
}

const (
	reqNone = iota
	reqAcquire
	reqOpStart
	reqFlush
	reqDone
)

// OpFunc is one API call of a client. It returns the canonical outcome string.
type OpFunc func() string

// OpRecord is the recorded history entry of one call.
type OpRecord struct {
	Client   int
	Index    int
	Invoke   uint64
	Return   uint64
	Out      string
	Panicked bool
	Done     bool
	Steps    int
}

type client struct {
	idx      int
	ops      []OpFunc
	recs     []OpRecord
	resume   chan struct{}
	req      int
	reqSlot  uint32
	reqWrite bool
	granted  bool
	finished bool
	curOp    int
	steps    int
	held     int // number of locks held (model), for reports
	batch    int
	panicMsg string
	hangOp   bool
	inflight bool
	opStart  time.Time
}

// Sched is the serialising scheduler. Exactly one client goroutine runs at a time;
// clients park before every mutex acquisition and before every call.
type Sched struct {
	tape     *Tape
	clients  [MaxClients]*client
	n        int
	cur      *client
	parked   chan struct{}
	ms       *[MaxMutex]mstate
	nslots   uint32
	epoch    uint32
	seq      uint64
	evHash   uint64
	attempts [MaxClients]int
	wg       sync.WaitGroup
	Watchdog time.Duration
	Leaked   bool // a client goroutine could not be unwound (busy loop); the process should exit soon
	Steps    int  // scheduling steps (the simulation's logical time)
	abort    bool
	overflow bool
	mismatch bool

	// configuration
	Strategy   int // 0 uniform, 1 sticky, 2 round-robin, 3 PCT
	PreemptPM  int // sticky: preemption probability (permille)
	StepBudget int
	TempDomain int // >0: temp-name random part drawn from this many values

	// temp-name context for sequential (non-client) execution, or when Alias is set
	SeqClient, SeqOp int
	seqAttempt       int
	Alias            bool

	// outputs (main goroutine only)
	Decisions   []uint8
	DecPoints   int // decision points with more than one runnable client
	BlockedSeen int // times a client was found not runnable at a decision point
	BatchBlocks int // lock inside an H3 region that had to park (order sensitive)
	TempCalls   int
	prio        [MaxClients]int
	pctChange   [4]int
	last        int
}

// global hook state: set once.
var (
	active *Sched
	hook   = &hookT{}
)

type hookT struct{}

// Install sets the avfs hook. Call once at process start, before any file system is used.
func Install() {
	if avfs.VerifHook == nil {
		avfs.VerifHook = hook
	}
}

var schedPool []*Sched //nolint:gochecknoglobals // main goroutine only.

// NewSched creates (or recycles) the scheduler of one run.
func NewSched(t *Tape) *Sched {
	var s *Sched

	if n := len(schedPool); n > 0 {
		s = schedPool[n-1]
		schedPool = schedPool[:n-1]
		parked := s.parked
		dec := s.Decisions[:0]
		ms := s.ms // keep memory: entries are re-initialised when a slot is assigned
		*s = Sched{}
		s.ms = ms
		s.parked = parked
		s.Decisions = dec
	} else {
		s = &Sched{parked: make(chan struct{}), ms: new([MaxMutex]mstate)}
	}

	s.tape = t
	s.StepBudget = 200000
	s.last = -1
	s.Watchdog = 10 * time.Second
	epochCounter++
	s.epoch = epochCounter%(1<<(32-slotBits)-1) + 1

	return s
}

// Free returns the scheduler to the pool. It must not be used afterwards.
func (s *Sched) Free() {
	if s.Leaked {
		return
	}

	if active == s {
		active = nil
	}

	schedPool = append(schedPool, s)
}

// Call1As is Call1 for the sequential re-execution of call (client, op) of a concurrent program:
// the temp-name candidates are those of that call.
func Call1As(client, op, tempDomain int, fn OpFunc) (out string, v Verdict, msg string) {
	s := NewSched(nil)
	s.TempDomain = tempDomain
	s.Alias = true
	s.SeqClient, s.SeqOp = client, op
	s.AddClient([]OpFunc{fn})
	v, msg = s.Run()
	out = s.Records(0)[0].Out
	s.Free()

	return out, v, msg
}

// Call1 runs a single call on a one-client scheduler: a self-deadlock, a busy loop or a panic
// becomes a verdict instead of hanging or killing the worker.
func Call1(op OpFunc) (out string, v Verdict, msg string) {
	s := NewSched(nil)
	s.AddClient([]OpFunc{op})
	v, msg = s.Run()
	r := s.Records(0)[0]
	out = r.Out
	s.Free()

	return out, v, msg
}

// AddClient registers a client program and returns its index.
func (s *Sched) AddClient(ops []OpFunc) int {
	c := &client{idx: s.n, ops: ops, resume: make(chan struct{}), recs: make([]OpRecord, len(ops))}
	for i := range c.recs {
		c.recs[i].Client = c.idx
		c.recs[i].Index = i
	}

	s.clients[s.n] = c
	s.n++

	return c.idx
}

// Records returns the history of client i (valid after Run).
func (s *Sched) Records(i int) []OpRecord { return s.clients[i].recs }

// InFlight returns the index of the call client i was executing when the run ended, or -1.
//
//go:norace
func (s *Sched) InFlight(i int) int {
	c := s.clients[i]
	if c.inflight {
		return c.curOp
	}

	return -1
}

// Seq returns the global event counter.
func (s *Sched) Seq() uint64 { return s.seq }

//go:norace
func (s *Sched) slotOf(m *avfs.VerifRWMutex) uint32 {
	idx := m.Slot & slotMask
	if m.Slot>>slotBits != s.epoch || idx == 0 || idx > s.nslots {
		if s.nslots+1 >= MaxMutex {
			s.overflow = true

			return 0
		}

		s.nslots++
		idx = s.nslots
		m.Slot = s.epoch<<slotBits | idx
		s.ms[idx] = mstate{writer: -1}
	}

	return idx
}

// knownSlot returns the slot of a mutex already seen in this run, or 0.
//
//go:norace
func (s *Sched) knownSlot(m *avfs.VerifRWMutex) uint32 {
	idx := m.Slot & slotMask
	if m.Slot>>slotBits != s.epoch || idx == 0 || idx > s.nslots {
		return 0
	}

	return idx
}

//go:norace
func (s *Sched) grantable(c *client) bool {
	if c.req != reqAcquire {
		return true
	}

	if c.granted {
		return true
	}

	ms := &s.ms[c.reqSlot]
	bit := uint16(1) << uint(c.idx)

	if c.reqWrite {
		return ms.writer < 0 && ms.nreaders == 0
	}

	if ms.grantedR&bit != 0 {
		return true
	}

	return ms.writer < 0 && ms.waitW == 0
}

// take applies the grant of c's pending acquire to the model.
//
//go:norace
func (s *Sched) take(c *client) {
	ms := &s.ms[c.reqSlot]
	bit := uint16(1) << uint(c.idx)

	if c.reqWrite {
		ms.writer = int8(c.idx)
		ms.waitW &^= bit
	} else {
		if ms.grantedR&bit != 0 {
			ms.grantedR &^= bit // already counted
		} else {
			ms.readers[c.idx]++
			ms.nreaders++
		}

		ms.waitR &^= bit
	}

	c.held++
	c.granted = true
}

//go:norace
func (s *Sched) release(c *client, slot uint32, write bool) {
	ms := &s.ms[slot]

	if write {
		if ms.writer == int8(c.idx) {
			ms.writer = -1
		}
		// readers queued behind the writer are admitted together.
		if ms.waitR != 0 {
			for i := 0; i < s.n; i++ {
				b := uint16(1) << uint(i)
				if ms.waitR&b != 0 {
					ms.readers[i]++
					ms.nreaders++
					ms.grantedR |= b
				}
			}

			ms.waitR = 0
		}
	} else if ms.readers[c.idx] > 0 {
		ms.readers[c.idx]--
		ms.nreaders--
	}

	c.held--
}

// park hands control back to the scheduler and waits to be resumed.
//
//go:norace
func (s *Sched) park(c *client) {
	raceDisable()
	s.parked <- struct{}{}
	<-c.resume
	raceEnable()

	if s.abort {
		runtime.Goexit()
	}
}

// Acquire implements avfs.VerifSched.
//
//go:norace
func (*hookT) Acquire(m *avfs.VerifRWMutex, write bool) bool {
	s := active
	if s == nil || s.cur == nil {
		// a direct call of the harness (an observation on the main goroutine): only counted, see GuardDirect.
		if directBudget != 0 {
			directSteps++
			if directSteps > directBudget {
				directBudget = 0

				panic(errDirectOverrun)
			}
		}

		// no simulated client is running: a lock that is not free now was left held by a call that has returned,
		// and the harness would wait for it for ever.
		if directGuard && !m.VerifProbe(write) {
			panic(errDirectBlocked)
		}

		return false
	}

	c := s.cur

	if s.abort {
		// unwinding after a verdict: never block, never park.
		return false
	}

	slot := s.slotOf(m)
	if slot == 0 {
		c.req = reqFlush
		s.park(c) // the scheduler sees the overflow flag and unwinds us.

		return false
	}

	c.steps++
	c.req = reqAcquire
	c.reqSlot = slot
	c.reqWrite = write
	c.granted = false

	if c.steps > s.StepBudget {
		c.hangOp = true
	}

	if c.batch > 0 && !c.hangOp && s.grantable(c) {
		// inside a map-ordered loop: no scheduling point unless the lock would block.
		s.take(c)
		c.req = reqNone
		s.seq++

		return true
	}

	bit := uint16(1) << uint(c.idx)
	if !s.grantable(c) {
		if write {
			s.ms[slot].waitW |= bit
		} else {
			s.ms[slot].waitR |= bit
		}

		if c.batch > 0 {
			s.BatchBlocks++
		}
	}

	s.park(c)
	// the scheduler has applied the grant before resuming us.
	c.req = reqNone

	return true
}

// Release implements avfs.VerifSched.
//
//go:norace
func (*hookT) Release(m *avfs.VerifRWMutex, write bool) {
	s := active
	if s == nil || s.cur == nil {
		return
	}

	slot := s.knownSlot(m)
	if slot == 0 {
		return
	}

	s.seq++
	s.release(s.cur, slot, write)
}

// Mismatch implements avfs.VerifSched.
//
//go:norace
func (*hookT) Mismatch(_ *avfs.VerifRWMutex, _ bool) {
	s := active
	if s == nil || s.cur == nil {
		return
	}

	if s.abort {
		return
	}

	s.mismatch = true
}

// BatchBegin implements avfs.VerifSched.
//
//go:norace
func (*hookT) BatchBegin() {
	s := active
	if s == nil || s.cur == nil {
		return
	}

	s.cur.batch++
}

// BatchEnd implements avfs.VerifSched.
//
//go:norace
func (*hookT) BatchEnd() {
	s := active
	if s == nil || s.cur == nil {
		return
	}

	s.cur.batch--
}

// TempName implements avfs.VerifSched.
//
//go:norace
func (*hookT) TempName(name, prefix, suffix string) string {
	s := active
	if s == nil || s.TempDomain <= 0 {
		return name
	}

	var cl, op, attempt int

	if c := s.cur; c != nil && s.Alias {
		cl, op = s.SeqClient, s.SeqOp
		attempt = s.seqAttempt
		s.seqAttempt++
	} else if c != nil {
		cl, op = c.idx, c.curOp
		attempt = s.attempts[c.idx]
		s.attempts[c.idx]++
	} else {
		cl, op = s.SeqClient, s.SeqOp
		attempt = s.seqAttempt
		s.seqAttempt++
	}

	s.TempCalls++
	// candidate stream of (client, call): a fixed permutation-free walk over the domain.
	v := (cl*3 + op*5 + attempt) % s.TempDomain

	return prefix + strconv.Itoa(v) + suffix
}

// ResetSeqTemp starts the temp-name candidate stream of a sequentially executed call.
func (s *Sched) ResetSeqTemp(cl, op int) {
	s.SeqClient, s.SeqOp, s.seqAttempt = cl, op, 0
}

// Activate makes s the scheduler consulted by the hooks (also for sequential temp names).
func (s *Sched) Activate() { active = s }

// Deactivate detaches the hooks.
func Deactivate() { active = nil }

//go:norace
func (s *Sched) clientMain(c *client, done chan<- int) {
	defer s.wg.Done() // visible to the race detector: results are read after wg.Wait.
	defer func() {
		// reached on normal end, on Goexit (abort) and after a recovered panic.
		c.finished = true
		c.req = reqDone
		raceDisable()
		done <- c.idx
		raceEnable()
	}()

	raceDisable()
	<-c.resume
	raceEnable()

	if s.abort {
		return
	}

	for i := range c.ops {
		c.curOp = i
		c.steps = 0
		s.attempts[c.idx] = 0
		c.req = reqOpStart
		s.park(c)
		c.req = reqNone
		s.seq++
		inv := s.seq
		c.inflight = true
		out, panicked := runOp(c.ops[i])
		s.seq++
		s.finishOp(c, i, inv, out, panicked)

		if panicked {
			c.panicMsg = out

			return
		}

		c.inflight = false
	}
}

// finishOp stores the record of a call (instrumented: read by main after wg.Wait).
func (s *Sched) finishOp(c *client, i int, inv uint64, out string, panicked bool) {
	r := &c.recs[i]
	r.Invoke = inv
	r.Return = s.seqNow()
	r.Out = out
	r.Panicked = panicked
	r.Done = true
	r.Steps = c.stepsNow()
}

//go:norace
func (s *Sched) seqNow() uint64 { return s.seq }

//go:norace
func (c *client) stepsNow() int { return c.steps }

func runOp(op OpFunc) (out string, panicked bool) {
	defer func() {
		if r := recover(); r != nil {
			panicked = true
			out = "panic:" + fmt.Sprint(r) + panicSite(debug.Stack())
		}
	}()

	return op(), false
}

// Run executes all clients to completion under the seeded schedule.
//
//go:norace
func (s *Sched) Run() (Verdict, string) {
	s.Activate()

	done := make(chan int, MaxClients)

	if s.Strategy == 3 {
		for i := 0; i < s.n; i++ {
			s.prio[i] = s.tape.Int(1000)
		}

		for i := range s.pctChange {
			s.pctChange[i] = s.tape.Int(200)
		}
	}

	s.wg.Add(s.n)

	for i := 0; i < s.n; i++ {
		go s.clientMain(s.clients[i], done)
	}

	verdict, msg := VOK, ""
	live := s.n
	step := 0
	leaked := false

	// waitEvent waits until the resumed client parks or ends; false on watchdog.
	waitEvent := func(d time.Duration) (ended bool, ok bool) {
		timer := time.NewTimer(d)
		defer timer.Stop()

		raceDisable()
		defer raceEnable()

		select {
		case <-s.parked:
			return false, true
		case <-done:
			return true, true
		case <-timer.C:
			return false, false
		}
	}

	for live > 0 {
		var runnable [MaxClients]int

		nr := 0

		for i := 0; i < s.n; i++ {
			c := s.clients[i]
			if c.finished {
				continue
			}

			if s.grantable(c) {
				runnable[nr] = i
				nr++
			} else {
				s.BlockedSeen++
				// a blocked writer announces itself: new readers queue behind it.
				if c.reqWrite {
					s.ms[c.reqSlot].waitW |= uint16(1) << uint(c.idx)
				} else {
					s.ms[c.reqSlot].waitR |= uint16(1) << uint(c.idx)
				}
			}
		}

		if nr == 0 {
			verdict, msg = VDeadlock, s.describeBlocked()

			break
		}

		pick := s.choose(runnable[:nr], step)
		step++
		c := s.clients[pick]

		if c.hangOp {
			verdict = VHang
			msg = fmt.Sprintf("client %d call %d exceeded %d lock events", c.idx, c.curOp, s.StepBudget)

			break
		}

		if c.req == reqOpStart {
			c.opStart = time.Now()
		} else if step%1024 == 0 && time.Since(c.opStart) > 3*s.Watchdog {
			verdict = VHang
			msg = fmt.Sprintf("client %d call %d still running after %v (%d lock events so far)", c.idx, c.curOp, 3*s.Watchdog, c.steps)

			break
		}

		if c.req == reqAcquire && !c.granted {
			s.take(c)
			s.seq++
		}

		s.evHash = SplitMix64(s.evHash ^ uint64(c.idx)<<40 ^ uint64(c.req)<<32 ^ uint64(c.reqSlot)<<1 ^ b2u(c.reqWrite))
		s.Steps++
		s.last = pick
		s.cur = c

		raceDisable()
		c.resume <- struct{}{}
		raceEnable()

		ended, ok := waitEvent(s.Watchdog)
		if !ok {
			// a call that neither returns nor reaches a lock event: busy loop.
			verdict = VHang
			msg = fmt.Sprintf("client %d call %d: no lock event and no return within %v (busy loop)", c.idx, c.curOp, s.Watchdog)
			leaked = true

			break
		}

		if ended {
			live--
		}

		if s.overflow {
			verdict, msg = VHarness, "mutex table overflow"

			break
		}

		if s.mismatch {
			verdict, msg = VHarness, "scheduler granted a lock the real mutex refused"

			break
		}

		if c.panicMsg != "" {
			verdict, msg = VPanic, fmt.Sprintf("client %d call %d: %s", c.idx, c.curOp, c.panicMsg)

			break
		}
	}

	// unwind whoever is still parked.
	if live > 0 && !leaked {
		s.abort = true

		for i := 0; i < s.n; i++ {
			c := s.clients[i]
			if c.finished {
				continue
			}

			s.cur = c

			raceDisable()
			c.resume <- struct{}{}
			raceEnable()

			if _, ok := waitEventDone(done, 5*time.Second); !ok {
				leaked = true

				break
			}

			live--
		}
	}

	s.cur = nil
	s.Leaked = leaked

	if !leaked {
		s.wg.Wait()
	}

	return verdict, msg
}

func waitEventDone(done <-chan int, d time.Duration) (int, bool) {
	timer := time.NewTimer(d)
	defer timer.Stop()

	raceDisable()
	defer raceEnable()

	select {
	case i := <-done:
		return i, true
	case <-timer.C:
		return 0, false
	}
}

func b2u(b bool) uint64 {
	if b {
		return 1
	}

	return 0
}

// EventHash is a rolling hash of every scheduling step (client, kind, mutex slot, mode).
func (s *Sched) EventHash() uint64 { return s.evHash }

func (s *Sched) describeBlocked() string {
	msg := ""

	for i := 0; i < s.n; i++ {
		c := s.clients[i]
		if c.finished {
			continue
		}

		kind := "RLock"
		if c.reqWrite {
			kind = "Lock"
		}

		ms := &s.ms[c.reqSlot]
		msg += fmt.Sprintf("[client %d call %d holds %d lock(s), waits for %s(m%d) writer=%d readers=%d] ",
			c.idx, c.curOp, c.held, kind, c.reqSlot, ms.writer, ms.nreaders)
	}

	return msg
}

// choose picks the next client among the runnable ones; with one candidate nothing is drawn.
func (s *Sched) choose(r []int, step int) int {
	if len(r) == 1 {
		s.Decisions = append(s.Decisions, uint8(r[0]))

		return r[0]
	}

	s.DecPoints++

	// order candidates so that choice 0 = "keep running the last client" when possible.
	ord := make([]int, 0, len(r))

	for _, x := range r {
		if x == s.last {
			ord = append(ord, x)
		}
	}

	for _, x := range r {
		if x != s.last {
			ord = append(ord, x)
		}
	}

	pick := ord[0]

	switch s.Strategy {
	case 1: // sticky with preemption probability
		if ord[0] != s.last || s.tape.Chance(s.PreemptPM) {
			if ord[0] == s.last {
				pick = ord[1+s.tape.Int(len(ord)-1)]
			} else {
				pick = ord[s.tape.Int(len(ord))]
			}
		}
	case 2: // round robin
		pick = r[0]

		for _, x := range r {
			if x > s.last {
				pick = x

				break
			}
		}
	case 3: // PCT: highest priority runs; at change points the running client is demoted.
		for i, cp := range s.pctChange {
			if cp == step && s.last >= 0 {
				s.prio[s.last] = -1 - i
			}
		}

		best := -1 << 30

		for _, x := range r {
			if s.prio[x] > best {
				best = s.prio[x]
				pick = x
			}
		}
	default:
		pick = ord[s.tape.Int(len(ord))]
	}

	s.Decisions = append(s.Decisions, uint8(pick))

	return pick
}

// panicSite extracts the innermost avfs function from a stack trace.
func panicSite(stack []byte) string {
	for _, line := range bytes.Split(stack, []byte("\n")) {
		if bytes.HasPrefix(line, []byte("github.com/avfs/avfs")) {
			l := string(line)
			if i := bytes.LastIndexByte(line, '('); i > 0 {
				l = l[:i]
			}

			return " @" + l[len("github.com/avfs/avfs"):]
		}
	}

	return ""
}

// Direct calls: what the harness itself calls on the main goroutine to observe a tree runs outside any
// simulated client. GuardDirect bounds the lock events of such a call, so that a library call that never
// returns (an endless retry, a cycle in the tree) ends the observation, and then the worker, instead of
// spinning for ever.
var (
	directBudget, directSteps int64
	errDirectOverrun          = errors.New("observation exceeded its budget of lock events")                    //nolint:gochecknoglobals // sentinel.
	errDirectBlocked          = errors.New("observation needs a lock that a call which has returned left held") //nolint:gochecknoglobals // sentinel.
	// Overrun is set when an observation was cut: the runner turns it into a verdict and ends the worker.
	Overrun string //nolint:gochecknoglobals // read by RunWorker after every run.
)

// directGuard is on while a property runs (RunGuarded): see Acquire.
var directGuard bool //nolint:gochecknoglobals // main goroutine only.

// RunGuarded runs one property run and turns a direct call of the harness that cannot complete (a lock left
// held by a call that returned, an observation that never ends) into the Overrun verdict instead of a dead worker.
func RunGuarded(run func() RunResult) (res RunResult) {
	if RaceBuild {
		return run()
	}

	directGuard = true

	defer func() {
		directGuard = false
		directBudget = 0

		if r := recover(); r != nil {
			if err, ok := r.(error); ok && (errors.Is(err, errDirectBlocked) || errors.Is(err, errDirectOverrun)) {
				Overrun = err.Error()
				res = RunResult{}

				return
			}

			panic(r)
		}
	}()

	return run()
}

// GuardDirect runs f (direct library calls on the main goroutine) under a budget of lock events.
// It returns "" or why f was cut; a panic of the library itself is reported the same way.
func GuardDirect(f func()) (why string) {
	if directBudget != 0 {
		f() // nested

		return ""
	}

	directSteps, directBudget = 0, 2_000_000

	defer func() {
		directBudget = 0

		if r := recover(); r != nil {
			why = fmt.Sprint(r)
			Overrun = why
		}
	}()

	f()

	return ""
}
