#!/usr/bin/env python3
"""Development helper: adds the signatures found in replays/<prop>-*.json to known_findings.json
(status open) after manual review. usage: kf_add.py <prop> <filter-substring> <what>"""
import json, glob, sys
prop, filt, what = sys.argv[1], sys.argv[2], sys.argv[3]
k = json.load(open('known_findings.json'))
have = {(f['property'], f['signature']) for f in k['findings']}
n = 0
for f in sorted(glob.glob('replays/%s-*.json' % prop)):
    r = json.load(open(f))
    sig = r['violation']['signature']
    if filt in sig and (prop, sig) not in have:
        have.add((prop, sig))
        k['findings'].append({"property": prop, "signature": sig, "what": what, "status": "open"})
        n += 1
        print("added", sig)
json.dump(k, open('known_findings.json', 'w'), indent=1)
print(n, "added")
