package props

import (
	"fmt"
	"strings"

	"github.com/avfs/avfs"

	"verif/fsx"
	"verif/sim"
)

// C01 — emulated namespace operations behave as on the real Linux file system.
type C01 struct{}

func (C01) ID() string { return "C01" }

func (C01) Describe() sim.Description {
	return sim.Description{
		Level: "exploration",
		Rule: "one case = a seeded history of 5-60 namespace calls by the administrator (OpenFile with arbitrary flag combinations plus handle Write/Close, Create, WriteFile, CreateTemp, " +
			"MkdirTemp, Mkdir, MkdirAll, Remove, RemoveAll, Rename, Link, Symlink, Truncate, Chmod, Chown, Lchown, Chtimes, Chdir with relative paths afterwards, and the queries Stat, Lstat, " +
			"ReadDir, ReadFile, Readlink, Getwd) on MemFS or OrefaFS (within the features each advertises), operands drawn by class from the current tree (existing file / directory / symbolic " +
			"link, missing, missing parent, below a regular file, the root, second operand anywhere incl. ancestor/descendant/same), executed in lockstep through osfs.OsFS inside a chrooted " +
			"helper process on tmpfs: same errno class and returned data call by call, and after every call identical trees (names, types, permission bits, owners, sizes, contents, link " +
			"counts, SameFile classes, link targets). A second mode runs lexically unclean paths against their Clean() form on a twin instance. " +
			"non-trivial = at least 3 calls changed the tree; distinct by hash of the calls",
		Explanation: "deterministic lockstep simulation against the real kernel; the statement has no schedule or fault dimension: the simulator contributes the seeded world, the state-aware " +
			"workload, the strict oracle, shrinking and replay. 90% of the runs steer clear of the operand classes of the recorded known findings so that the histories go on behind them.",
		Assumptions: []string{
			"the reference is Go's os package (through osfs.OsFS) on this kernel's tmpfs, as root, inside a chroot, supplementary groups dropped; it is driven strictly request/response",
			"modification times, directory sizes and directory link counts are not compared (file-system specific, the library documents none)",
			"symbolic link targets are generated lexically clean (Readlink is documented to return the cleaned target)",
		},
		RealCode: []string{"vfs/memfs", "vfs/orefafs", "vfs.go composites", "vfs/osfs + Go os package + Linux tmpfs (reference)"},
		Stubs:    []string{"none"},
	}
}

func genC01(t *sim.Tape, w *e1World, uniq string) fsx.Op {
	symlinks := w.kind == "memfs"
	kinds := []string{
		"OpenFile", "FWrite", "FClose", "Create", "WriteFile", "CreateTemp", "MkdirTemp", "Mkdir", "MkdirAll", "Remove", "RemoveAll", "Rename", "Link",
		"Symlink", "Truncate", "Chmod", "Chown", "Lchown", "Chtimes", "Chdir", "Stat", "Lstat", "ReadDir", "ReadFile", "Readlink", "Getwd",
	}
	weights := []int{6, 3, 2, 2, 6, 1, 1, 6, 3, 5, 3, 8, 4, 4, 3, 3, 2, 1, 1, 3, 2, 2, 2, 2, 1, 1}

	if !symlinks {
		weights[13], weights[24], weights[17] = 0, 0, 0
	}

	o := fsx.Op{K: kinds[t.Weighted(weights)]}
	p := func() string { return w.genPath(t, symlinks) }

	switch o.K {
	case "OpenFile":
		o.P, o.Flag, o.Perm, o.H = p(), genFlags(t), []uint32{0o644, 0o600, 0o666, 0o4755, 0}[t.Int(5)], t.Int(2)
	case "Create":
		o.P, o.H = p(), t.Int(2)
	case "FWrite":
		o.H, o.Data = t.Int(2), uniq
	case "FClose":
		o.H = t.Int(2)
	case "WriteFile":
		o.P, o.Data, o.Perm = p(), uniq, []uint32{0o644, 0o600, 0o666}[t.Int(3)]
	case "CreateTemp", "MkdirTemp":
		o.P, o.Q, o.H = p(), []string{"t*", "*x", "p"}[t.Int(3)], t.Int(2)
	case "Mkdir", "MkdirAll":
		o.P, o.Perm = p(), []uint32{0o755, 0o700, 0o777, 0o1777}[t.Int(4)]
	case "Rename", "Link":
		o.P, o.Q = p(), p()

		if t.Chance(100) {
			o.Q = o.P
		} else if t.Chance(100) {
			o.Q = o.P + "/" + e1Names[t.Int(len(e1Names))]
		}
	case "Symlink":
		// target: sibling name, ../name, absolute path, possibly missing.
		switch t.Int(4) {
		case 0:
			o.P = e1Names[t.Int(len(e1Names))]
		case 1:
			o.P = "../" + e1Names[t.Int(len(e1Names))]
		case 2:
			o.P = w.pick(t, "fd")
		default:
			o.P = w.newUnder(t, w.pick(t, "d"))
		}

		if o.P == "" {
			o.P = "a"
		}

		o.Q = p()
	case "Truncate":
		o.P, o.Size = p(), []int64{0, 1, 3, 10, -1}[t.Int(5)]
	case "Chmod":
		o.P, o.Perm = p(), []uint32{0o644, 0o600, 0o755, 0o000, 0o4755, 0o1777, 0o2750}[t.Int(7)]
	case "Chown", "Lchown":
		o.P, o.Uid, o.Gid = p(), []int{0, 1000, 1001, -1}[t.Int(4)], []int{0, 1000, -1}[t.Int(3)]
	case "Chtimes":
		o.P, o.Size = p(), 1000000+int64(t.Int(1000))
	case "Getwd":
	default:
		o.P = p()
	}

	return o
}

func (p C01) Run(c *sim.Ctx, t *sim.Tape) sim.RunResult {
	if t.Chance(150) {
		return p.runUnclean(c, t)
	}

	kind := []string{"memfs", "orefafs"}[t.Weighted([]int{6, 4})]
	umask := []uint32{0o022, 0o077, 0o002, 0o000, 0o027}[t.Int(5)]
	filtered := !t.Chance(100)
	w, err := newE1World(c, kind, umask)

	if err != nil {
		return sim.RunResult{Harness: err.Error()}
	}

	tr := seqTrace{FS: fmt.Sprintf("%s umask=%#o", kind, umask)}
	res := sim.RunResult{}
	okMut := 0

	defer func() {
		w.env.CloseAll()
		sim.Deactivate()
	}()

	for i, lim := 0, 60*deeper(c, t); i < lim && (i < 5 || t.Chance(950+20*(lim/120))); i++ {
		o := genC01(t, w, fmt.Sprintf("<%d>", i))

		if filtered {
			o.Perm &^= 0o6000 // setuid/setgid semantics are a recorded known finding: 90% of the runs leave them alone
		}

		if filtered && len(opPathsOf(o)) > 0 && w.avoided(c, "C01", o) {
			c.Count("calls_steered_away_from_known_findings", 1)

			o = insteadOf(o)
		}

		out := w.step(c, "C01", i, o, w.env, 0, 0, umask)
		res.Steps++
		tr.Calls = append(tr.Calls, o.String())
		tr.Outcomes = append(tr.Outcomes, out.a.String())

		if out.harness != "" {
			res.Harness = out.harness

			return res
		}

		if out.cut {
			break
		}

		c.Count("calls_"+o.K+"_"+errKind(out.a.Err), 1)

		if out.violation != nil {
			tr.Verdict = out.violation.Msg
			res.Trace = tr
			res.Violation = out.violation

			return res
		}

		if out.a.Err == "ok" && isMutator(o.K) {
			okMut++
		}
	}

	res.Trace = tr
	res.TraceHash = sim.HashString(fmt.Sprint(tr.FS, tr.Calls))
	res.Nontrivial = okMut >= 3
	c.Count("runs_"+kind, 1)

	return res
}

func errKind(e string) string {
	if e == "ok" {
		return "ok"
	}

	return "err"
}

// runUnclean: a path that is not lexically clean behaves exactly as its Clean() form (twin instance).
func (p C01) runUnclean(c *sim.Ctx, t *sim.Tape) sim.RunResult {
	kind := []string{"memfs", "orefafs"}[t.Int(2)]
	cfg := &concCfg{FS: kind, HardLink: t.Chance(500)}
	wa := buildWorld(cfg, 1)
	wb := buildWorld(cfg, 1)
	ea, eb := &fsx.Env{VFS: wa.fs}, &fsx.Env{VFS: wb.fs}
	tr := seqTrace{FS: kind + " unclean path vs Clean(path)"}
	res := sim.RunResult{}
	okMut := 0

	unclean := func(path string) string {
		parts := strings.Split(path, "/")
		info, err := wb.fs.Stat(path)
		isDir := err == nil && info.IsDir()

		var out []string

		for i, part := range parts {
			out = append(out, part)

			if i == 0 {
				continue
			}

			if i == len(parts)-1 && !isDir {
				// "/." and "/" after the last element are only equivalent to nothing after a directory
				// (the kernel mode covers trailing separators).
				continue
			}

			switch t.Int(6) {
			case 0:
				out = append(out, ".")
			case 1:
				out = append(out, "")
			case 2:
				out = append(out, "zz", "..")
			}
		}

		s := strings.Join(out, "/")
		if t.Chance(150) && s != "/" && isDir {
			s += "/"
		}

		return s
	}

	paths := []string{"/a", "/a/f", "/b/g", "/a/d", "/a/d/h", "/a/x", "/b/x", "/a/d/x", "/b", "/b/k", "/a/x/y"}

	for i := 0; i < 30 && (i < 5 || t.Chance(920)); i++ {
		kinds := []string{"Mkdir", "MkdirAll", "WriteFile", "ReadFile", "ReadDir", "Remove", "RemoveAll", "Rename", "Link", "Truncate", "Stat", "Lstat", "OpenFile", "Chmod", "Chdir", "Create"}
		o := fsx.Op{K: kinds[t.Int(len(kinds))], Perm: 0o755, Data: fmt.Sprintf("<%d>", i), H: t.Int(2)}
		o.P = unclean(paths[t.Int(len(paths))])

		if o.K == "Rename" || o.K == "Link" {
			o.Q = unclean(paths[t.Int(len(paths))])
		}

		if o.K == "OpenFile" {
			o.Flag = genFlags(t)
		}

		if o.Q != "" && avfs.Clean(wb.fs, o.P) == avfs.Clean(wb.fs, o.Q) {
			// os.Rename compares the two names as strings before anything else: not a property of the paths.
			o.K = "Stat"
			o.Q = ""
		}

		oc := o
		oc.P = avfs.Clean(wb.fs, o.P)

		if o.Q != "" {
			oc.Q = avfs.Clean(wb.fs, o.Q)
		}

		var ra, rb fsx.Result

		_, v1, m1 := sim.Call1(func() string { ra = ea.Exec(o); return ra.String() })
		_, v2, _ := sim.Call1(func() string { rb = eb.Exec(oc); return rb.String() })

		res.Steps += 2
		tr.Calls = append(tr.Calls, o.String()+" vs "+oc.String())
		tr.Outcomes = append(tr.Outcomes, ra.String()+" vs "+rb.String())

		if v1 == sim.VHarness {
			res.Harness = m1

			return res
		}

		if v1 != sim.VOK || v2 != sim.VOK {
			break
		}

		if (o.K == "Stat" || o.K == "Lstat") && ra.Err == "ok" && rb.Err == "ok" {
			// the reported name is the last element of the string given (as os.Stat): only the attributes are compared.
			ra.Data, rb.Data = statRest(ra.Data), statRest(rb.Data)
		}

		if ra.String() != rb.String() {
			tr.Verdict = "differs"
			res.Trace = tr
			res.Violation = &sim.Violation{
				Prop: "C01", Class: "unclean-differs", Sig: kind + "|" + o.K + "|unclean path differs from its Clean() form => " + rb.Err + " vs " + ra.Err,
				Msg: fmt.Sprintf("call %d: %s returned %q, %s returned %q", i, o, ra, oc, rb),
			}

			return res
		}

		sa, _ := wa.digestTree()
		sb, _ := wb.digestTree()

		if sa != sb {
			tr.Verdict = "trees differ"
			res.Trace = tr
			res.Violation = &sim.Violation{
				Prop: "C01", Class: "unclean-differs", Sig: kind + "|" + o.K + "|unclean path leaves a different tree than its Clean() form",
				Msg: fmt.Sprintf("call %d %s vs %s:\n%s", i, o, oc, fsx.Diff(sb, sa)),
			}

			return res
		}

		if ra.Err == "ok" && isMutator(o.K) {
			okMut++
		}
	}

	sim.Deactivate()
	ea.CloseAll()
	eb.CloseAll()

	res.Trace = tr
	res.TraceHash = sim.HashString(fmt.Sprint(tr.FS, tr.Calls))
	res.Nontrivial = okMut >= 3
	c.Count("runs_unclean_"+kind, 1)

	return res
}
