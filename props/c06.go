package props

import (
	"fmt"
	"os"
	"strings"
	"time"

	"verif/fsx"
	"verif/sim"
)

type fsxOp = fsx.Op

func fsxDiff(a, b string) string { return fsx.Diff(a, b) }

// C06 — concurrent namespace operations are linearizable.
type C06 struct{}

func (C06) ID() string { return "C06" }

func (C06) Describe() sim.Description {
	return sim.Description{
		Level: "exploration",
		Rule: "one case = a program of 2-4 clients x 1-3 calls (Mkdir, OpenFile with all flag sets, handle Write/Read/Close/Truncate/ReadDir, Remove, Rename, " +
			"Link, Symlink, Truncate, Chmod, Stat, Lstat, Readlink, MkdirAll, RemoveAll, CreateTemp, MkdirTemp) over an 11-13 path pool in two directories of one shared tree " +
			"(MemFS through per-client Sub views, or one OrefaFS), executed under one seeded interleaving at lock-acquisition granularity; the recorded history " +
			"(invoke/return stamped with the global event counter) plus a final observation of the whole tree and all handle states is checked with porcupine against " +
			"the same implementation run sequentially; non-trivial = at least two calls changed the tree and at least one decision point had several runnable clients; " +
			"distinct by hash of configuration + calls + decisions",
		Explanation: "deterministic simulation; oracle = linearizability against the sequential behaviour of the implementation itself (fresh instance per candidate order, memoised), " +
			"so sequential defects are C01's, not C06's; runs that end in a deadlock/hang/panic verdict are C07's and are counted as inconclusive here",
		Assumptions: []string{
			"scheduler model of sync.RWMutex trusted (TryLock cross-check)",
			"interleavings are explored at lock-acquisition granularity with sequentially consistent memory; unsynchronised conflicts between two lock operations are C08's",
			"two sequential orders that lead to the same observable state (tree + handles) are considered equivalent by the checker",
		},
		RealCode: []string{"vfs/memfs", "vfs/orefafs", "vfs.go composites (CreateTemp, MkdirTemp)"},
		Stubs:    []string{"blocking of sync.RWMutex modelled by the scheduler", "temp-name random part drawn from a 2-3 value domain per (client, call, attempt) via hook H2"},
	}
}

type seqEval struct {
	out    string // outcome of the last call of the sequence
	digest string
	bad    bool // sequential execution itself deadlocked / panicked
}

type seqModel struct {
	cfg   *concCfg
	n     int
	memo  map[string]*seqEval
	evals int
}

// eval replays the sequence of calls (keys "client.index" joined by ';') on a fresh instance.
func (m *seqModel) eval(key string) *seqEval {
	if e, ok := m.memo[key]; ok {
		return e
	}

	m.evals++
	w := buildWorld(m.cfg, m.n)
	e := &seqEval{}

	if key != "" {
		for _, part := range strings.Split(key, ";") {
			var ci, j int

			fmt.Sscanf(part, "%d.%d", &ci, &j)

			o := m.cfg.Progs[ci][j]
			env := w.envs[ci]
			out, v, _ := sim.Call1As(ci, j, m.cfg.TempDomain, func() string { return env.Exec(o).String() })

			if v != sim.VOK {
				e.bad = true

				break
			}

			e.out = out
		}
	}

	if !e.bad {
		e.digest, _ = w.digest()
	}

	sim.Deactivate()

	m.memo[key] = e

	return e
}

// opPaths returns the path operands of a call with the symbolic links of the initial tree resolved.
func opPaths(o fsxOp) []string {
	var ps []string

	for i, p := range []string{o.P, o.Q} {
		if p == "" || !strings.HasPrefix(p, "/") {
			continue
		}

		if o.K == "Symlink" && i == 0 {
			continue // the target of a symlink is not resolved by the call
		}

		p = cleanAbs(p)
		p = strings.Replace(p, "/a/lb", "/b", 1)
		if p == "/a/l" {
			p = "/a/f"
		}

		if o.K == "CreateTemp" || o.K == "MkdirTemp" {
			p += "/t" // they create below the directory they name
		}

		ps = append(ps, p)
	}

	return ps
}

func rawPaths(o fsxOp) []string {
	var ps []string

	for i, p := range []string{o.P, o.Q} {
		if strings.HasPrefix(p, "/") && !(o.K == "Symlink" && i == 0) {
			p = cleanAbs(p)

			if o.K == "CreateTemp" || o.K == "MkdirTemp" {
				p += "/t"
			}

			ps = append(ps, p)
		}
	}

	return ps
}

// ancRace reports whether some call of the program runs below a directory that a call of another client removes or moves.
func ancRace(cfg *concCfg) bool {
	for a := range cfg.Progs {
		for b := a + 1; b < len(cfg.Progs); b++ {
			for _, oa := range cfg.Progs[a] {
				for _, ob := range cfg.Progs[b] {
					if oa.K == "Rename" && ob.K == "Rename" {
						// renames are serialised among themselves (one rename lock, as in the kernel): two of them
						// are never an ancestor race, whatever their operands.
						continue
					}

					if pairRel(oa, ob) == "anc" {
						return true
					}
				}
			}
		}
	}

	return false
}

// nameRace reports whether a call that is not itself a removal or move shares a path with a
// Remove, RemoveAll or Rename of another client.
func nameRace(a, b fsxOp) bool {
	return pairRel(a, b) == "same" && removesOrMoves(a.K) != removesOrMoves(b.K)
}

func anyNameRace(cfg *concCfg) bool {
	for a := range cfg.Progs {
		for b := a + 1; b < len(cfg.Progs); b++ {
			for _, oa := range cfg.Progs[a] {
				for _, ob := range cfg.Progs[b] {
					if nameRace(oa, ob) {
						return true
					}
				}
			}
		}
	}

	return false
}

const nameRaceSig = " nonlinearizable: a call races with the removal or replacement of the very name it resolves"

const ancRaceSig = " nonlinearizable: a call races with the removal or move of an ancestor directory of one of its paths"

func removesOrMoves(k string) bool { return k == "Remove" || k == "RemoveAll" || k == "Rename" }

// pairRel classifies how two calls of different clients relate: "anc" when one of them removes or
// moves a directory that is a proper ancestor of a path of the other, "same" when they share a path, else "other".
func pairRel(a, b fsxOp) string {
	rel := "other"

	for _, pa := range append(opPaths(a), rawPaths(a)...) {
		for _, pb := range append(opPaths(b), rawPaths(b)...) {
			if pa == pb {
				rel = "same"
			}

			if removesOrMoves(b.K) && pb != "/" && strings.HasPrefix(pa, pb+"/") {
				return "anc"
			}

			if removesOrMoves(a.K) && pa != "/" && strings.HasPrefix(pb, pa+"/") {
				return "anc"
			}
		}
	}

	return rel
}

func pairKey(fs string, a, b fsxOp) string {
	x, y := a.K, b.K
	if y < x {
		x, y = y, x
	}

	return fs + " nonlinearizable pair " + x + " || " + y + " (" + pairRel(a, b) + ")"
}

// crossPairs lists the unordered pairs of calls issued by different clients, as known-finding keys.
func crossPairs(cfg *concCfg) []string {
	seen := map[string]bool{}

	var out []string

	for a := range cfg.Progs {
		for b := a + 1; b < len(cfg.Progs); b++ {
			for _, oa := range cfg.Progs[a] {
				for _, ob := range cfg.Progs[b] {
					if k := pairKey(cfg.FS, oa, ob); !seen[k] {
						seen[k] = true
						out = append(out, k)
					}
				}
			}
		}
	}

	return sortedCopy(out)
}

// dropKnownPairs removes from the program the calls that would form, with a call already kept in
// another client, a pair listed as a known finding (filtered mode: explore what lies behind them).
func dropKnownPairs(c *sim.Ctx, cfg *concCfg, prop string) {
	kept := make([][]fsxOp, len(cfg.Progs))

	for ci := range cfg.Progs {
		var prog []fsxOp

		for _, o := range cfg.Progs[ci] {
			bad := false

			for cj := range kept {
				if cj == ci {
					continue
				}

				for _, k := range kept[cj] {
					if _, ok := c.Known[prop+"|"+pairKey(cfg.FS, o, k)]; ok {
						bad = true
					}

					if _, ok := c.Known[prop+"|"+cfg.FS+ancRaceSig]; ok && pairRel(o, k) == "anc" && !(o.K == "Rename" && k.K == "Rename") {
						bad = true
					}

					if _, ok := c.Known[prop+"|"+cfg.FS+nameRaceSig]; ok && nameRace(o, k) && !(prop == "C06" && (isTypedQuery(o.K) || isTypedQuery(k.K))) {
						// (queries stay: what they answer is also judged on its own, see impossibleOutcome)
						bad = true
					}
				}
			}

			if !bad {
				prog = append(prog, o)
				kept[ci] = append(kept[ci], o)
			}
		}

		cfg.Progs[ci] = prog
	}
}

func (p C06) Run(c *sim.Ctx, t *sim.Tape) sim.RunResult {
	filtered := !t.Chance(100)
	cfg := genConc(t, []string{"memfs", "orefafs"}, 4, 2+deeper(c, t), false)

	if filtered {
		dropKnownPairs(c, cfg, "C06")
		c.Count("runs_filtered_known_pairs", 1)
	}

	r := runConc(t, cfg)

	defer r.S.Free()

	res := sim.RunResult{Steps: r.S.Steps, Trace: r.Trace, TraceHash: r.hash()}
	res.Nontrivial = r.OkMut >= 2 && r.S.DecPoints > 0
	res.OrderSensitive = r.S.BatchBlocks > 0
	c.Count("decision_points", int64(r.S.DecPoints))
	c.Count("blocked_observed", int64(r.S.BlockedSeen))
	c.Count("h3_region_blocked", int64(r.S.BatchBlocks))
	c.Count("temp_name_hook_calls", int64(r.S.TempCalls))
	c.Count("runs_"+cfg.FS, 1)

	switch r.Verdict {
	case sim.VOK:
	case sim.VHarness:
		res.Harness = r.Msg

		return res
	default:
		c.Count("inconclusive_"+r.Verdict.String(), 1)

		return res
	}

	final, _ := r.W.digest()
	hist := append([]sim.HistOp(nil), r.Hist...)
	hist = append(hist, sim.HistOp{Client: len(cfg.Progs), In: "observe", Out: final, Call: r.S.Seq() + 1, Ret: r.S.Seq() + 2})

	m := &seqModel{cfg: cfg, n: len(cfg.Progs), memo: map[string]*seqEval{}}

	if os.Getenv("VERIF_DEBUG_LIN") != "" {
		for _, h := range hist {
			fmt.Printf("HIST client=%d in=%v call=%d ret=%d out=%q\n", h.Client, h.In, h.Call, h.Ret, h.Out)
		}
	}

	// porcupine states are sequence keys; two keys are equal when they lead to the same observable state.
	lr := checkLinKeys(hist, m)
	c.Count("sequential_replays", int64(m.evals))

	switch lr {
	case sim.LinUnknown:
		c.Count("linearizability_unknown", 1)
	case sim.LinIllegal:
		sig := cfg.FS + " nonlinearizable " + callKinds(cfg)

		pairs := crossPairs(cfg)
		if len(pairs) == 1 {
			sig = pairs[0]
		}

		for _, key := range pairs {
			if _, ok := c.Known["C06|"+key]; ok {
				sig = key

				break
			}
		}

		if anyNameRace(cfg) {
			sig = cfg.FS + nameRaceSig
		}

		if ancRace(cfg) {
			sig = cfg.FS + ancRaceSig
		}

		// The listed races explain histories whose calls each return something a sequential order could return,
		// in a combination none yields. A call that returns what NO order yields is a different thing and is
		// never covered by them.
		// (not when a directory on the path is removed or moved meanwhile: resolving a path of several components
		// is several lookups in any file system, and what they meet then belongs to the recorded ancestor races.)
		if k := impossibleOutcome(m, cfg, r.Hist); k != "" && !ancRace(cfg) {
			sig = cfg.FS + " query answers with an object type (or link target) that the path has in no sequential order: " + k
		}

		res.Violation = &sim.Violation{
			Prop: "C06", Class: "nonlinearizable", Sig: sig,
			Msg: "no sequential order of the calls yields these results and this final tree",
		}

		tr := r.Trace
		tr.Final = strings.Split(strings.TrimSpace(final), "\n")
		tr.Orders = explainOrders(m, cfg, final)
		res.Trace = tr
	}

	return res
}

// callKinds is the sorted multiset of call kinds of a program (signature of a finding).
func callKinds(cfg *concCfg) string {
	var ks []string

	for _, pr := range cfg.Progs {
		var k []string
		for _, o := range pr {
			k = append(k, o.K)
		}

		ks = append(ks, strings.Join(k, ","))
	}

	return strings.Join(sortedCopy(ks), " || ")
}

func sortedCopy(xs []string) []string {
	out := append([]string(nil), xs...)

	for i := 1; i < len(out); i++ {
		for j := i; j > 0 && out[j] < out[j-1]; j-- {
			out[j], out[j-1] = out[j-1], out[j]
		}
	}

	return out
}

func checkLinKeys(hist []sim.HistOp, m *seqModel) sim.LinResult {
	step := func(state string, in any, out string) (bool, string) {
		if s, ok := in.(string); ok && s == "observe" {
			e := m.eval(state)

			return !e.bad && e.digest == out, state
		}

		ci := in.(concIn)
		key := fmt.Sprintf("%d.%d", ci.Client, ci.Index)

		if state != "" {
			key = state + ";" + key
		}

		e := m.eval(key)
		if e.bad || e.out != out {
			return false, state
		}

		return true, key
	}

	return sim.CheckLinEq(hist, "", step, func(a, b string) bool {
		if a == b {
			return true
		}

		ea, eb := m.eval(a), m.eval(b)

		return !ea.bad && !eb.bad && ea.digest == eb.digest
	}, 20*time.Second)
}

// impossibleOutcome returns the kind of the first call whose observed result is not its result in any
// sequential order compatible with program order ("" if there is none or the program is too large to enumerate).
func impossibleOutcome(m *seqModel, cfg *concCfg, hist []sim.HistOp) string {
	total := 0
	for _, p := range cfg.Progs {
		total += len(p)
	}

	if total > 5 {
		return ""
	}

	possible := map[string]map[string]bool{}
	pos := make([]int, len(cfg.Progs))

	var rec func(key string, n int)

	rec = func(key string, n int) {
		if n == total {
			return
		}

		for ci := range cfg.Progs {
			if pos[ci] >= len(cfg.Progs[ci]) {
				continue
			}

			id := fmt.Sprintf("%d.%d", ci, pos[ci])
			k := id

			if key != "" {
				k = key + ";" + id
			}

			e := m.eval(k)
			if possible[id] == nil {
				possible[id] = map[string]bool{}
			}

			if !e.bad {
				possible[id][typeClass(e.out)] = true
			}

			pos[ci]++
			rec(k, n+1)
			pos[ci]--
		}
	}

	rec("", 0)

	for _, h := range hist {
		ci, ok := h.In.(concIn)
		if !ok {
			continue
		}

		o := cfg.Progs[ci.Client][ci.Index]
		if !isTypedQuery(o.K) {
			continue
		}

		id := fmt.Sprintf("%d.%d", ci.Client, ci.Index)
		cl := typeClass(h.Out)

		if cfg.Symlinks && cl == "error" {
			// following a symbolic link is two lookups (the link, then its target), which no file system makes
			// atomic: an error in between is the walk's, not a wrong object.
			continue
		}

		if set := possible[id]; set != nil && !set[cl] {
			return o.K + "=" + cl
		}
	}

	return ""
}

// isTypedQuery: queries whose answer names the type (Stat, Lstat) or the target (Readlink) of an object.
func isTypedQuery(k string) bool { return k == "Stat" || k == "Lstat" || k == "Readlink" }

// typeClass reduces the result of Stat or Lstat to its outcome and the type of the object ("ok:d", "ENOENT").
func typeClass(out string) string {
	f := strings.Fields(out)
	if len(f) == 2 && f[0] == "ok" {
		return out // Readlink: the target
	}

	if len(f) >= 3 && f[0] == "ok" {
		return "ok:" + f[2]
	}

	// which error is not a matter of object type (a Windows-typed instance tells a missing file from a missing directory).
	return "error"
}

type orderInfo struct {
	Order    []string `json:"order"`
	Outcomes []string `json:"outcomes"`
	Final    string   `json:"final_vs_observed"`
}

// explainOrders lists, for small programs, every sequential order compatible with program order,
// with its outcomes and the difference between its final state and the observed one.
func explainOrders(m *seqModel, cfg *concCfg, final string) []orderInfo {
	total := 0
	for _, p := range cfg.Progs {
		total += len(p)
	}

	if total > 4 {
		return nil
	}

	var out []orderInfo

	pos := make([]int, len(cfg.Progs))

	var rec func(key string, order, outs []string)

	rec = func(key string, order, outs []string) {
		if len(order) == total {
			e := m.eval(key)
			d := "equal"

			if e.bad {
				d = "sequential execution did not return"
			} else if e.digest != final {
				d = fsxDiff(e.digest, final)
			}

			out = append(out, orderInfo{append([]string(nil), order...), append([]string(nil), outs...), d})

			return
		}

		for ci := range cfg.Progs {
			if pos[ci] >= len(cfg.Progs[ci]) {
				continue
			}

			j := pos[ci]
			k := fmt.Sprintf("%d.%d", ci, j)

			if key != "" {
				k = key + ";" + k
			}

			e := m.eval(k)
			pos[ci]++
			rec(k, append(order, fmt.Sprintf("c%d:%s", ci, cfg.Progs[ci][j])), append(outs, e.out))
			pos[ci]--
		}
	}

	rec("", nil, nil)

	return out
}
