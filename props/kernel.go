package props

import (
	"bufio"
	"encoding/json"
	"fmt"
	"io"
	"os"
	"os/exec"
	"path/filepath"
	"runtime"
	"sort"
	"strings"
	"syscall"

	"github.com/avfs/avfs/vfs/osfs"

	"verif/fsx"
	"verif/sim"
)

// The kernel oracle: a helper process that chroots into a private scratch directory on tmpfs
// and executes every call through osfs.OsFS (Go's os package on the real Linux kernel).

type kReq struct {
	Cmd   string   `json:"cmd"`
	Op    fsx.Op   `json:"op,omitempty"`
	Uid   int      `json:"uid,omitempty"`
	Gid   int      `json:"gid,omitempty"`
	Umask uint32   `json:"umask,omitempty"`
	Paths []string `json:"paths,omitempty"`
	Mtime bool     `json:"mtime,omitempty"`
	NoOwn bool     `json:"no_owner,omitempty"`
	Cwd   string   `json:"cwd,omitempty"` // the working directory the client believes to be in
}

type kResp struct {
	Res     fsx.Result `json:"res,omitempty"`
	Snap    string     `json:"snap,omitempty"`
	Classes []string   `json:"classes,omitempty"`
	Err     string     `json:"err,omitempty"`
}

// KernelHelperMain is the entry point of the chrooted kernel oracle process (simcheck -koracle <dir>).
func KernelHelperMain() int {
	if len(os.Args) < 3 {
		fmt.Fprintln(os.Stderr, "koracle: scratch directory missing")

		return 2
	}

	dir := os.Args[len(os.Args)-1]

	runtime.LockOSThread()

	if err := syscall.Chroot(dir); err != nil {
		fmt.Fprintln(os.Stderr, "koracle: chroot:", err)

		return 2
	}

	if err := os.Chdir("/"); err != nil {
		return 2
	}

	_ = syscall.Setgroups([]int{})
	syscall.Umask(0)

	env := &fsx.Env{VFS: osfs.New()} // with its identity manager: without one OsFS refuses Chown itself
	in := bufio.NewReaderSize(os.Stdin, 1<<20)
	out := bufio.NewWriterSize(os.Stdout, 1<<20)
	enc := json.NewEncoder(out)

	for {
		line, err := in.ReadBytes('\n')
		if err != nil {
			return 0
		}

		var rq kReq
		if err := json.Unmarshal(line, &rq); err != nil {
			_ = enc.Encode(kResp{Err: "bad request: " + err.Error()})
			out.Flush()

			continue
		}

		var rs kResp

		switch rq.Cmd {
		case "exec":
			syscall.Umask(int(rq.Umask))

			if rq.Uid != 0 || rq.Gid != 0 {
				setFsIDs(rq.Uid, rq.Gid)
			}

			rs.Res = env.Exec(rq.Op)

			if rq.Op.K == "RemoveAll" && rs.Res.Err == "EACCES" && rmrf(rq.Op.P) == nil {
				// os.RemoveAll opens the PARENT of its operand for reading, which the kernel does not require
				// for removing a tree (rm -r does without): that refusal is an artefact of the reference, not DAC.
				rs.Res.Err = "ok"
			}

			if rq.Uid != 0 || rq.Gid != 0 {
				setFsIDs(0, 0)
			}

			syscall.Umask(0)
		case "snap":
			rs.Snap = fsx.Snapshot(env.VFS, "/", fsx.SnapOpts{Mtime: rq.Mtime, NoOwner: rq.NoOwn}).String()
		case "hclass":
			// what a handle is before a call: none, file, directory, or a directory that no longer is where it was opened.
			cl := "hnone"
			if h := rq.Op.H; h >= 0 && h < fsx.MaxHandles && env.H[h] != nil {
				cl = "hfile"

				if env.IsDir[h] {
					cl = "hdir"

					fi1, err1 := env.H[h].Stat()
					fi2, err2 := os.Stat(env.H[h].Name())

					if err1 != nil || err2 != nil || !os.SameFile(fi1, fi2) {
						cl = "hdir-moved"
					}
				}
			}

			rs.Classes = []string{cl}
		case "classify":
			for _, p := range rq.Paths {
				rs.Classes = append(rs.Classes, classifyPath(p, rq.Cwd))
			}
		case "reset":
			env.CloseAll()
			_ = os.Chdir("/")
			wipe("/")

			// the root first: a setgid bit or a group left on it would be inherited by what is created next.
			_ = os.Chown("/", 0, 0)
			_ = os.Chmod("/", 0o755)

			for _, d := range []struct {
				p string
				m os.FileMode
			}{{"/home", 0o700}, {"/root", 0o700}, {"/tmp", 0o777}} {
				_ = os.Mkdir(d.p, d.m)
				_ = os.Chown(d.p, 0, 0)
				_ = os.Chmod(d.p, d.m)
			}
		case "wipe":
			for _, p := range rq.Paths {
				_ = os.RemoveAll(p)
			}
		default:
			rs.Err = "unknown command"
		}

		_ = enc.Encode(rs)
		out.Flush()
	}
}

// rmrf removes a tree with plain system calls, never opening anything but the directories it empties.
func rmrf(p string) error {
	err := syscall.Unlink(p)
	if err == nil || err == syscall.ENOENT {
		return nil
	}

	if err != syscall.EISDIR && err != syscall.EPERM {
		return err
	}

	err = syscall.Rmdir(p)
	if err == nil || err == syscall.ENOENT {
		return nil
	}

	if err != syscall.ENOTEMPTY && err != syscall.EEXIST {
		return err
	}

	ents, err := os.ReadDir(p)
	if err != nil {
		return err
	}

	for _, e := range ents {
		if err := rmrf(p + "/" + e.Name()); err != nil {
			return err
		}
	}

	return syscall.Rmdir(p)
}

func setFsIDs(uid, gid int) {
	// fsgid first while still privileged.
	_, _, _ = syscall.RawSyscall(syscall.SYS_SETFSGID, uintptr(gid), 0, 0)
	_, _, _ = syscall.RawSyscall(syscall.SYS_SETFSUID, uintptr(uid), 0, 0)
}

func wipe(dir string) {
	ents, _ := os.ReadDir(dir)
	for _, e := range ents {
		p := filepath.Join(dir, e.Name())
		_ = os.Chmod(p, 0o777)
		_ = os.RemoveAll(p)
	}
}

// classifyPath describes what a path is before a call (reference side).
func classifyPath(p, believedCwd string) string {
	if p == "" {
		return "empty"
	}

	var flags []string

	if !strings.HasPrefix(p, "/") {
		flags = append(flags, "rel")
	}

	if p != filepath.Clean(p) {
		flags = append(flags, "unclean")
	}

	if len(p) > 1 && strings.HasSuffix(p, "/") {
		flags = append(flags, "trailing-sep")
	}

	abs := p
	if !strings.HasPrefix(p, "/") {
		wd, werr := os.Getwd()
		if werr != nil {
			// the current directory has been removed: every relative path fails in the kernel.
			return "rel-cwd-gone"
		}

		if believedCwd != "" && wd != believedCwd {
			// the current directory has been renamed: the kernel follows the directory, a remembered path does not.
			return "rel-cwd-moved"
		}

		abs = wd + "/" + p
	}

	abs = filepath.Clean(abs)

	// a symbolic link among the proper ancestors?
	cur := ""
	parts := strings.Split(strings.TrimPrefix(abs, "/"), "/")

	for i, part := range parts {
		if part == "" || i == len(parts)-1 {
			continue
		}

		cur += "/" + part

		if fi, err := os.Lstat(cur); err == nil && fi.Mode()&os.ModeSymlink != 0 {
			flags = append(flags, "via-symlink")

			break
		}
	}

	cls := ""
	fi, err := os.Lstat(abs)

	switch {
	case abs == "/":
		cls = "root"

		if err == nil && fi.Mode()&(os.ModeSetuid|os.ModeSetgid) != 0 {
			flags = append(flags, "sugid")
		}
	case err == nil && fi.IsDir():
		cls = "dir-empty"
		if ents, _ := os.ReadDir(abs); len(ents) > 0 {
			cls = "dir-nonempty"
		}

		if fi.Mode()&(os.ModeSetuid|os.ModeSetgid) != 0 {
			flags = append(flags, "sugid")
		}
	case err == nil && fi.Mode()&os.ModeSymlink != 0:
		ti, terr := os.Stat(abs)

		if terr == nil && ti.Mode()&(os.ModeSetuid|os.ModeSetgid) != 0 {
			flags = append(flags, "sugid")
		}

		switch {
		case terr == nil && ti.IsDir():
			cls = "symlink->dir"
		case terr == nil:
			cls = "symlink->file"
		case isErrno(terr, syscall.ELOOP):
			cls = "symlink->loop"
		default:
			cls = "symlink->dangling"

			// a create through the link lands in the directory of its target.
			if tgt, rerr := os.Readlink(abs); rerr == nil {
				if !strings.HasPrefix(tgt, "/") {
					tgt = filepath.Dir(abs) + "/" + tgt
				}

				if pi, perr := os.Stat(filepath.Dir(filepath.Clean(tgt))); perr == nil && pi.Mode()&os.ModeSetgid != 0 {
					flags = append(flags, "sgid-parent")
				}
			}
		}
	case err == nil:
		cls = "file"
		if st, ok := fi.Sys().(*syscall.Stat_t); ok && st.Nlink > 1 {
			cls = "file-linked"
		}

		if fi.Mode()&(os.ModeSetuid|os.ModeSetgid) != 0 {
			flags = append(flags, "sugid")
		}
	case isErrno(err, syscall.ENOTDIR):
		cls = "below-file"
	case isErrno(err, syscall.ELOOP):
		cls = "loop"
	case isErrno(err, syscall.ENOENT):
		cls = "missing"
		if pi, perr := os.Stat(filepath.Dir(abs)); perr != nil {
			cls = "missing-parent"
			if isErrno(perr, syscall.ENOTDIR) {
				cls = "below-file"
			}

			// nearest existing ancestor with the setgid bit?
			for d := filepath.Dir(abs); d != "."; d = filepath.Dir(d) {
				if ai, aerr := os.Stat(d); aerr == nil {
					if ai.Mode()&os.ModeSetgid != 0 {
						flags = append(flags, "sgid-parent")
					}

					break
				}

				if d == "/" {
					break
				}
			}
		} else if pi.Mode()&os.ModeSetgid != 0 {
			flags = append(flags, "sgid-parent")
		}
	default:
		cls = "err:" + fsx.ErrClass(err)
	}

	sort.Strings(flags)

	if len(flags) > 0 {
		return cls + "," + strings.Join(flags, ",")
	}

	return cls
}

func isErrno(err error, e syscall.Errno) bool {
	for err != nil {
		if x, ok := err.(syscall.Errno); ok {
			return x == e
		}

		u, ok := err.(interface{ Unwrap() error })
		if !ok {
			return false
		}

		err = u.Unwrap()
	}

	return false
}

// kernel is the client side of the helper.
type kernel struct {
	cmd  *exec.Cmd
	in   io.WriteCloser
	out  *bufio.Reader
	dir  string
	dead bool
}

func startKernel() (*kernel, error) {
	if os.Geteuid() != 0 {
		return nil, fmt.Errorf("the kernel oracle needs root (chroot)")
	}

	dir, err := os.MkdirTemp("/dev/shm", "avfs-verif-k-")
	if err != nil {
		return nil, err
	}

	_ = os.Chmod(dir, 0o755)

	self, err := os.Executable()
	if err != nil {
		return nil, err
	}

	cmd := exec.Command(self, "-koracle", dir)
	cmd.Stderr = os.Stderr
	in, _ := cmd.StdinPipe()
	outp, _ := cmd.StdoutPipe()

	if err := cmd.Start(); err != nil {
		_ = os.RemoveAll(dir)

		return nil, err
	}

	k := &kernel{cmd: cmd, in: in, out: bufio.NewReaderSize(outp, 1<<20), dir: dir}

	if _, err := k.call(kReq{Cmd: "reset"}); err != nil {
		k.stop()

		return nil, fmt.Errorf("kernel helper does not answer: %w", err)
	}

	return k, nil
}

func (k *kernel) stop() {
	if k == nil {
		return
	}

	_ = k.in.Close()
	_ = k.cmd.Wait()

	// make everything removable, then remove the scratch directory.
	_ = filepath.Walk(k.dir, func(p string, _ os.FileInfo, _ error) error {
		_ = os.Chmod(p, 0o777)

		return nil
	})
	_ = os.RemoveAll(k.dir)
}

func (k *kernel) call(rq kReq) (kResp, error) {
	var rs kResp

	if k.dead {
		return rs, fmt.Errorf("kernel helper is gone")
	}

	b, _ := json.Marshal(rq)
	b = append(b, '\n')

	if _, err := k.in.Write(b); err != nil {
		k.dead = true

		return rs, err
	}

	line, err := k.out.ReadBytes('\n')
	if err != nil {
		k.dead = true

		return rs, err
	}

	if err := json.Unmarshal(line, &rs); err != nil {
		return rs, err
	}

	if rs.Err != "" {
		return rs, fmt.Errorf("%s", rs.Err)
	}

	return rs, nil
}

// getKernel returns the worker's kernel helper, starting it on first use.
func getKernel(c *sim.Ctx) (*kernel, error) {
	if k, ok := c.Aux["kernel"].(*kernel); ok && !k.dead {
		return k, nil
	}

	sweepStaleScratch()

	k, err := startKernel()
	if err != nil {
		return nil, err
	}

	c.Aux["kernel"] = k
	c.Cleanups = append(c.Cleanups, k.stop)

	return k, nil
}

// sweepStaleScratch removes scratch directories left by workers that were killed.
func sweepStaleScratch() {
	ents, _ := os.ReadDir("/dev/shm")
	for _, e := range ents {
		if !strings.HasPrefix(e.Name(), "avfs-verif-k-") {
			continue
		}

		info, err := e.Info()
		if err != nil {
			continue
		}

		if st, ok := info.Sys().(*syscall.Stat_t); ok {
			// older than ten minutes: nobody runs that long without touching it.
			var now syscall.Timeval
			_ = syscall.Gettimeofday(&now)

			if now.Sec-st.Mtim.Sec > 1800 {
				p := "/dev/shm/" + e.Name()
				_ = filepath.Walk(p, func(q string, _ os.FileInfo, _ error) error { _ = os.Chmod(q, 0o777); return nil })
				_ = os.RemoveAll(p)
			}
		}
	}
}
