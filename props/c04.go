package props

import (
	"fmt"
	"strings"

	"verif/fsx"
	"verif/sim"
)

// C04 — symbolic links resolve as the kernel resolves them.
type C04 struct{}

func (C04) ID() string { return "C04" }

func (C04) Describe() sim.Description {
	return sim.Description{
		Level: "exploration",
		Rule: "one case = a MemFS tree built by a seeded history of Mkdir, WriteFile and Symlink calls with targets of every shape (sibling name, ../name, ../../name, absolute path, the link " +
			"itself, members of 2- and 3-cycles, chains of 1-45 links - both sides of the kernel's limit of 40 -, dangling, targets below a regular file), links re-targeted mid-history by " +
			"Remove+Symlink and Rename, followed by 10-40 calls Stat, Lstat, Open, ReadFile, ReadDir, Chmod, Truncate, Mkdir and WriteFile below, EvalSymlinks, Readlink, Remove, Rename, Lchown, Link on " +
			"paths of 1-4 components through those names (link in final and in intermediate position; relative forms and '..' after Chdir or File.Chdir through a link, Getwd), each executed in lockstep on the real kernel (chrooted helper; filepath.EvalSymlinks for " +
			"EvalSymlinks): same errno class, same data, same tree after every call. non-trivial = at least 2 symbolic links exist and at least 3 calls went through a link; distinct by hash of the calls",
		Explanation: "deterministic lockstep simulation against the kernel with a link-heavy profile; the statement has no schedule or fault dimension (links are re-targeted mid-history by ordinary calls)",
		Assumptions: []string{
			"because of the chroot, absolute targets and '..' at the root mean the same on both sides",
			"filepath.EvalSymlinks walks links itself with a limit of 255: EvalSymlinks is compared on chains of at most 40 links",
		},
		RealCode: []string{"vfs/memfs (searchNode, symlink handling)", "pathiterator.go", "vfs/osfs + kernel (reference)"},
		Stubs:    []string{"none"},
	}
}

var c04Names = []string{"a", "ab", "b", "l", "m", "n", "dé"} //nolint:gochecknoglobals // name universe (with names that prefix each other).

func (p C04) Run(c *sim.Ctx, t *sim.Tape) sim.RunResult {
	w, err := newE1World(c, "memfs", 0o022)
	if err != nil {
		return sim.RunResult{Harness: err.Error()}
	}

	filtered := !t.Chance(100)
	tr := seqTrace{FS: "memfs symlink profile"}
	res := sim.RunResult{}
	links, through := 0, 0

	defer func() {
		w.env.CloseAll()
		sim.Deactivate()
	}()

	dirs := []string{"/a", "/a/b", "/ab"}
	name := func() string { return c04Names[t.Int(len(c04Names))] }
	anyDir := func() string { return dirs[t.Int(len(dirs))] }

	do := func(i int, o fsx.Op) (stop bool) {
		if filtered && len(opPathsOf(o)) > 0 && w.avoided(c, "C04", o) {
			o = insteadOf(o)
		}

		out := w.step(c, "C04", i, o, w.env, 0, 0, 0o022)
		res.Steps++
		tr.Calls = append(tr.Calls, o.String())
		tr.Outcomes = append(tr.Outcomes, out.a.String())

		if out.harness != "" {
			res.Harness = out.harness

			return true
		}

		if out.cut {
			return true
		}

		if out.violation != nil {
			tr.Verdict = out.violation.Msg
			res.Trace = tr
			res.Violation = out.violation

			return true
		}

		if o.K == "Symlink" && out.a.Err == "ok" {
			links++
		}

		for _, cl := range out.classes {
			if strings.Contains(cl, "symlink") && out.a.Err == "ok" {
				through++

				break
			}
		}

		return false
	}

	i := 0

	for _, d := range dirs {
		if do(i, fsx.Op{K: "Mkdir", P: d, Perm: 0o755}) {
			return res
		}

		i++
	}

	if do(i, fsx.Op{K: "WriteFile", P: "/a/f", Data: "F", Perm: 0o644}) {
		return res
	}

	i++

	// link graph
	nl := t.Range(2, 8)
	for j := 0; j < nl; j++ {
		ln := anyDir() + "/" + name()

		var target string

		switch t.Int(10) {
		case 0:
			target = name()
		case 1:
			target = "../" + name()
		case 2:
			target = "../../" + name()
		case 3:
			target = anyDir() + "/" + name()
		case 4:
			target = ln[strings.LastIndexByte(ln, '/')+1:] // itself
		case 5:
			target = anyDir()
		case 6:
			target = "/a/f"
		case 7:
			target = "f/" + name() // below a regular file
		case 8:
			target = "../" + anyDir()[1:] + "/" + name()
		default:
			target = "."
		}

		if do(i, fsx.Op{K: "Symlink", P: target, Q: ln}) {
			return res
		}

		i++
	}

	// optional chain of k links ending on a file or a directory: /ab/c0 -> c1 -> ... -> target
	chain := 0

	if t.Chance(250) {
		chain = []int{2, 5, 39, 40, 41, 45}[t.Int(6)]

		for j := 0; j < chain; j++ {
			tgt := fmt.Sprintf("c%d", j+1)
			if j == chain-1 {
				tgt = []string{"/a/f", "/a/b", "nowhere"}[t.Int(3)]
			}

			if do(i, fsx.Op{K: "Symlink", P: tgt, Q: fmt.Sprintf("/ab/c%d", j)}) {
				return res
			}

			i++
		}
	}

	path := func() string {
		if chain > 0 && t.Chance(300) {
			p := "/ab/c0"
			if t.Chance(300) {
				p += "/" + name()
			}

			return p
		}

		n := t.Range(1, 3)
		p := anyDir()

		for k := 0; k < n; k++ {
			p += "/" + name()
		}

		if t.Chance(100) {
			p = "/" + name()
		}

		if t.Chance(40) {
			// a trailing separator: only a directory (or a link to one) may precede it.
			p += "/"
		}

		// after a Chdir: relative forms, also climbing out of the current directory.
		if w.cwd != "/" && t.Chance(250) {
			switch t.Int(3) {
			case 0:
				p = name()
			case 1:
				p = "../" + name()
			default:
				if strings.HasPrefix(p, w.cwd+"/") {
					p = strings.TrimPrefix(p, w.cwd+"/")
				}
			}
		}

		if p == "" {
			p = "." // (the empty path is not part of this profile)
		}

		return p
	}

	kinds := []string{
		"Stat", "Lstat", "Open", "ReadFile", "ReadDir", "Chmod", "Truncate", "Mkdir", "WriteFile", "EvalSymlinks", "Readlink", "Remove", "Rename", "Lchown", "Link",
		"Symlink", "FClose", "MkdirAll", "OpenFile", "Chdir", "FChdir", "Getwd", "FStat", "FReadDir",
	}
	weights := []int{6, 4, 3, 4, 3, 2, 2, 3, 3, 5, 3, 2, 3, 1, 2, 2, 1, 1, 2, 2, 2, 2, 1, 1}

	for q, lim := 0, 40*deeper(c, t); q < lim && (q < 10 || t.Chance(930+30*(lim/80))); q++ {
		o := fsx.Op{K: kinds[t.Weighted(weights)]}

		switch o.K {
		case "Rename", "Link":
			o.P, o.Q = path(), path()
		case "Symlink":
			o.P, o.Q = []string{name(), "../" + name(), anyDir()}[t.Int(3)], path()
		case "Open":
			o.P, o.H = path(), 0
		case "OpenFile":
			o.P, o.Flag, o.Perm, o.H = path(), genFlags(t), 0o644, 0
		case "FClose", "FChdir", "FStat":
			o.H = 0
		case "FReadDir":
			o.H, o.N = 0, -1
		case "Getwd":
		case "Chmod", "Mkdir", "MkdirAll":
			o.P, o.Perm = path(), 0o750
		case "Truncate":
			o.P, o.Size = path(), int64(t.Int(3))
		case "WriteFile":
			o.P, o.Data, o.Perm = path(), fmt.Sprintf("<%d>", q), 0o644
		case "Lchown":
			o.P, o.Uid, o.Gid = path(), 1000, 1000
		default:
			o.P = path()
		}

		if o.K == "EvalSymlinks" && chain > 30 {
			o.K = "Stat" // filepath.EvalSymlinks has its own limit (255)
		}

		if do(i, o) {
			return res
		}

		i++
	}

	res.Trace = tr
	res.TraceHash = sim.HashString(fmt.Sprint(tr.Calls))
	res.Nontrivial = links >= 2 && through >= 3
	c.Count("symlinks_created", int64(links))
	c.Count("calls_on_symlink_operands", int64(through))

	if chain > 0 {
		c.Count(fmt.Sprintf("chain_of_%d_links", chain), 1)
	}

	return res
}
