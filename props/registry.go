package props

import "verif/sim"

// Lookup returns the property with the given id.
func Lookup(id string) sim.Property {
	switch id {
	case "C15":
		return C15{}
	case "C07":
		return C07{}
	case "C06":
		return C06{}
	case "C05":
		return C05{}
	case "C09":
		return C09{}
	case "C10":
		return C10{}
	case "C11":
		return C11{}
	case "C12":
		return C12{}
	case "C16":
		return C16{}
	case "C17":
		return C17{}
	case "C01":
		return C01{}
	case "C04":
		return C04{}
	case "C02":
		return C02{}
	case "C03":
		return C03{}
	case "C14":
		return C14{}
	case "C08":
		return C08{}
	}

	return nil
}
