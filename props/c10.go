package props

import (
	"fmt"
	"os"
	"regexp"
	"sort"
	"strconv"
	"strings"

	"github.com/avfs/avfs"
	"github.com/avfs/avfs/idm/memidm"
	"github.com/avfs/avfs/vfs/basepathfs"
	"github.com/avfs/avfs/vfs/memfs"
	"github.com/avfs/avfs/vfs/orefafs"

	"verif/fsx"
	"verif/sim"
)

// C10 — BasePathFS confines all access to its base directory and acts as a chroot.
type C10 struct{}

func (C10) ID() string { return "C10" }

func (C10) Describe() sim.Description {
	return sim.Description{
		Level: "exploration",
		Rule: "one case = a base (MemFS or OrefaFS) holding content inside and outside B=/a, a standalone twin of the same type whose root holds B's content, and a seeded " +
			"history of 5-40 path-taking and handle calls issued both through basepathfs.New(base, B) and on the twin, with paths from the alphabet {names, '.', '..', '/', '//', " +
			"B's own prefix, \"\"} absolute and relative, Chdir mixed in and handles followed; after every call: everything outside B in the base is unchanged (snapshot with " +
			"modification times), outcome and data equal the twin's (including Getwd, Abs, Glob results and the Path/Old/New fields of PathError and LinkError, which therefore never " +
			"contain B), File.Name resolves to the twin's name, and the virtual tree equals the twin's tree. non-trivial = at least 3 calls changed the tree and at least 2 used '..' or a relative path; " +
			"distinct by hash of the calls",
		Explanation: "deterministic twin simulation with adversarial path strings as the fault dimension; calls BasePathFS does not advertise (symbolic links) are not generated",
		Assumptions: []string{"the twin is the same implementation as the base, so sequential defects shared by both cancel out (they are C01's)"},
		RealCode:    []string{"vfs/basepathfs", "vfs/memfs", "vfs/orefafs"},
		Stubs:       []string{"none"},
	}
}

// bpWorld builds base (content inside and outside /a) and twin (root = content of /a).
func bpWorld(kind string) (base, twin avfs.VFS) {
	mk := func(root bool) avfs.VFS {
		var v avfs.VFS

		sys := []avfs.DirInfo{{Path: "/", Perm: 0o777}}

		if kind == "orefafs" {
			if root {
				v = orefafs.NewWithOptions(&orefafs.Options{OSType: avfs.OsLinux, SystemDirs: sys})
			} else {
				v = orefafs.NewWithOptions(&orefafs.Options{OSType: avfs.OsLinux})
			}
		} else {
			idm := memidm.NewWithOptions(&memidm.Options{OSType: avfs.OsLinux})
			if root {
				v = memfs.NewWithOptions(&memfs.Options{OSType: avfs.OsLinux, Idm: idm, SystemDirs: sys})
			} else {
				v = memfs.NewWithOptions(&memfs.Options{OSType: avfs.OsLinux, Idm: idm})
			}
		}

		_ = v.SetUMask(0o022)

		return v
	}

	base = mk(false)
	twin = mk(true)

	fill := func(v avfs.VFS, prefix string) {
		_ = v.Mkdir(prefix+"/d", 0o777)
		_ = v.Mkdir(prefix+"/e", 0o755)
		_ = v.WriteFile(prefix+"/f", []byte("AAAA"), 0o666)
		_ = v.WriteFile(prefix+"/d/h", []byte("H"), 0o666)
		_ = v.Link(prefix+"/f", prefix+"/e/k")
	}

	_ = base.Mkdir("/a", 0o777)
	_ = base.Chmod("/a", 0o777)
	_ = twin.Chmod("/", 0o777)

	if info, err := base.Stat("/a"); err == nil {
		st := base.ToSysStat(info)
		_ = twin.Chown("/", st.Uid(), st.Gid())
	}
	fill(base, "/a")
	fill(twin, "")
	_ = base.Mkdir("/b", 0o777)
	_ = base.WriteFile("/b/secret", []byte("SECRET"), 0o600)
	_ = base.WriteFile("/secret", []byte("TOP"), 0o600)
	_ = base.Mkdir("/ab", 0o777) // shares B as string prefix
	_ = base.WriteFile("/ab/s", []byte("S"), 0o600)

	return base, twin
}

var bpParts = []string{"f", "d", "e", "h", "k", "x", "..", ".", "", "a", "b", "secret", "tmp"} //nolint:gochecknoglobals // alphabet.

func bpPath(t *sim.Tape) string {
	n := t.Range(1, 4)
	parts := make([]string, 0, n)

	for i := 0; i < n; i++ {
		parts = append(parts, bpParts[t.Weighted([]int{4, 4, 3, 3, 2, 4, 5, 2, 1, 2, 2, 2, 1})])
	}

	p := strings.Join(parts, "/")
	if p == "" {
		p = "." // the empty path itself is not generated: MemFS and OrefaFS treat a handle with an empty name as invalid, a quirk unrelated to BasePathFS
	}

	switch t.Int(5) {
	case 0, 1, 2:
		p = "/" + p
	case 3:
		p = "//" + p
	}

	return p
}

func bpOp(t *sim.Tape, uniq string) fsx.Op {
	kinds := []string{
		"Stat", "Lstat", "ReadDir", "ReadFile", "WriteFile", "Mkdir", "MkdirAll", "Remove", "RemoveAll", "Rename", "Link", "OpenFile", "Create", "Open",
		"Truncate", "Chmod", "Chtimes", "Chdir", "Getwd", "Abs", "Glob", "WalkDir", "CreateTemp", "MkdirTemp", "FRead", "FWrite", "FClose", "FName", "FStat",
		"FReadDir", "FChdir", "Exists", "Chown", "FWriteString", "FWriteAt", "FTruncate", "FSeek", "FReaddirnames", "FSync", "FChmod",
	}
	weights := []int{3, 2, 3, 4, 4, 3, 2, 3, 2, 4, 2, 3, 2, 2, 1, 1, 1, 4, 3, 2, 2, 1, 1, 1, 2, 2, 1, 2, 1, 1, 1, 1, 1, 2, 1, 1, 1, 1, 1, 1}
	o := fsx.Op{K: kinds[t.Weighted(weights)]}

	switch o.K {
	case "Rename", "Link":
		o.P, o.Q = bpPath(t), bpPath(t)
	case "OpenFile":
		o.P = bpPath(t)
		o.Flag = genFlags(t)
		o.Perm = 0o644
		o.H = t.Int(3)
	case "Create", "Open":
		o.P, o.H = bpPath(t), t.Int(3)
	case "WriteFile":
		o.P, o.Data, o.Perm = bpPath(t), uniq, 0o644
	case "Truncate":
		o.P, o.Size = bpPath(t), int64(t.Int(4))
	case "Mkdir", "MkdirAll", "Chmod":
		o.P, o.Perm = bpPath(t), []uint32{0o755, 0o700}[t.Int(2)]
	case "Chown":
		o.P, o.Uid, o.Gid = bpPath(t), 1000, 1000
	case "Chtimes":
		o.P, o.Size = bpPath(t), 1000000
	case "Glob":
		o.P = []string{"/*", "/d/*", "/../*", "/*/*", "/a/*", "/../b/*", "/d/../../*", "*", "d/*", "../*", "../../*", "../../b/*", "*/*", "../a*/*"}[t.Int(14)]
	case "WalkDir":
		o.P = []string{"/", "/d", "/..", "/../b", "/d/.."}[t.Int(5)]
	case "CreateTemp", "MkdirTemp":
		o.P, o.Q, o.H = []string{"/d", "/e", "/..", "/x"}[t.Int(4)], "t*", t.Int(3)
	case "FRead":
		o.H, o.N = t.Int(3), 8
	case "FWrite", "FWriteString":
		o.H, o.Data = t.Int(3), uniq
	case "FWriteAt":
		o.H, o.Data, o.Size = t.Int(3), uniq, int64(t.Int(4))
	case "FTruncate":
		o.H, o.Size = t.Int(3), int64(t.Int(4))
	case "FSeek":
		o.H, o.Size, o.N = t.Int(3), int64(t.Int(4)), t.Int(3)
	case "FSync":
		o.H = t.Int(3)
	case "FChmod":
		o.H, o.Perm = t.Int(3), 0o600
	case "FReadDir", "FReaddirnames":
		o.H, o.N = t.Int(3), -1
	case "FClose", "FName", "FStat", "FChdir":
		o.H = t.Int(3)
	case "Getwd":
	default:
		o.P = bpPath(t)
	}

	return o
}

// outsideB renders the part of the base that lies outside /a.
func outsideB(base avfs.VFS) string {
	sn := fsx.Snapshot(base, "/", fsx.SnapOpts{Mtime: true, Tops: append([]string{"ab", "secret"}, topNames...)})

	var b strings.Builder

	lines := sn.Lines()
	for _, n := range sn.Nodes {
		if n.Path == "/a" {
			b.WriteString("/a exists as " + string(n.Type) + "\n")

			continue
		}

		if strings.HasPrefix(n.Path, "/a/") || n.Path == "/" {
			continue
		}

		b.WriteString(lines[n.Path])
		b.WriteByte('\n')
	}

	return b.String()
}

func (p C10) Run(c *sim.Ctx, t *sim.Tape) sim.RunResult {
	kind := []string{"memfs", "orefafs"}[t.Int(2)]
	base, twin := bpWorld(kind)

	// the working directory the base file system was left in before the wrapper is used:
	// outside B (also in a directory whose name merely extends B's), or inside it.
	switch t.Int(5) {
	case 1:
		_ = base.Chdir("/ab")
	case 2:
		_ = base.Chdir("/b")
	case 3:
		_ = base.Chdir("/a/d")
		_ = twin.Chdir("/d")
	}

	// B as the caller may write it: the wrapper has to work whatever the spelling.
	spelling := "/a"
	if t.Chance(300) {
		spelling = []string{"/a/", "/a/.", "//a", "/ab/../a", "/a/d/..", "/a//", "/./a"}[t.Int(7)]
		c.Count("base_path_not_clean", 1)
	}

	bp, err := basepathfs.NewWithErr(base, spelling)

	if err != nil {
		return sim.RunResult{Harness: "cannot create BasePathFS: " + err.Error()}
	}

	be := &fsx.Env{VFS: bp, ErrPaths: true}
	te := &fsx.Env{VFS: twin, ErrPaths: true}
	tr := seqTrace{FS: "basepath/" + kind + " B=" + spelling}
	res := sim.RunResult{}
	okMut, tricky := 0, 0
	nameAtOpen := map[int]string{}

	fail := func(i int, o fsx.Op, class, sig, msg string) sim.RunResult {
		tr.Verdict = msg
		res.Trace = tr
		res.Violation = &sim.Violation{Prop: "C10", Class: class, Sig: "basepath/" + kind + " " + sig, Msg: fmt.Sprintf("call %d %s: %s", i, o, msg)}

		return res
	}

	snapV := func(v avfs.VFS) string {
		s := fsx.Snapshot(v, "/", fsx.SnapOpts{Tops: []string{"d", "e", "f", "x", "h", "k", "a", "b", "secret", "tmp"}}).String()
		// the root itself is B on one side and a root directory on the other: its own attributes are not compared.
		if strings.HasPrefix(s, "/ d ") {
			if i := strings.IndexByte(s, '\n'); i >= 0 {
				s = s[i+1:]
			}
		}

		return s
	}

	for i := 0; i < 40 && (i < 5 || t.Chance(920)); i++ {
		o := bpOp(t, fmt.Sprintf("<%d>", i))

		if o.K == "Rename" {
			if a1, _ := twin.Abs(o.P); a1 != "" {
				if a2, _ := twin.Abs(o.Q); a1 == a2 {
					// os.Rename compares its two arguments as strings before anything else (a directory renamed onto
					// "itself" fails only when both strings are equal): BasePathFS cleans the strings, the twin does not.
					o = fsx.Op{K: "Stat", P: o.P}
				}
			}
		}

		outBefore := outsideB(base)

		var got fsx.Result

		op := o
		_, v, msg := sim.Call1As(0, i, 1000, func() string {
			got = be.Exec(op)

			return got.String()
		})

		res.Steps++
		tr.Calls = append(tr.Calls, o.String())
		tr.Outcomes = append(tr.Outcomes, got.String())

		if v == sim.VHarness {
			res.Harness = msg

			return res
		}

		if v != sim.VOK {
			c.Count("inconclusive_"+v.String(), 1)

			break
		}

		if outAfter := outsideB(base); outAfter != outBefore {
			return fail(i, o, "escape-write", o.K+" changed the base outside B", fsx.Diff(outBefore, outAfter))
		}

		var want fsx.Result

		// same temp-name candidates on both sides (hook H2 keyed by call index).
		_, v2, _ := sim.Call1As(0, i, 1000, func() string {
			want = te.Exec(op)

			return want.String()
		})

		if v2 != sim.VOK {
			c.Count("twin_inconclusive", 1)

			break
		}

		if (o.K == "Open" || o.K == "OpenFile" || o.K == "Create" || o.K == "CreateTemp") && want.Err == "ok" && o.H >= 0 && o.H < fsx.MaxHandles {
			// the absolute clean virtual name the handle stands for, fixed at open time.
			if f := te.H[o.H]; f != nil {
				nameAtOpen[o.H], _ = twin.Abs(f.Name())
			}
		}

		if o.K == "FName" {
			if got.Err == "ok" && want.Err == "ok" {
				if ga := twin.Clean(got.Data); ga != nameAtOpen[o.H] {
					return fail(i, o, "name-differs", "File.Name is not the virtual path the file was opened with",
						fmt.Sprintf("BasePathFS %q, twin %q (absolute: %q)", got.Data, want.Data, nameAtOpen[o.H]))
				}
			} else if got.Err != want.Err {
				return fail(i, o, "outcome-differs", "FName outcome differs", fmt.Sprintf("BasePathFS %q, twin %q", got, want))
			}
		} else if g, w2, soft := bpNormalise(bp, twin, o, got, want); soft != nil || g != w2 {
			if soft != nil {
				soft.Sig = "basepath/" + kind + " " + soft.Sig
				res.Soft = append(res.Soft, soft)
			}

			if g == w2 {
				goto same
			}

			cls := "outcome-differs"
			if strings.Contains(got.Data, "SECRET") || strings.Contains(got.Data, "TOP") || strings.Contains(got.Data, "secret:") {
				cls = "escape-read"
			}

			return fail(i, o, cls, o.K+" "+got.Err+" vs twin "+want.Err, fmt.Sprintf("BasePathFS %q, twin %q", got, want))
		}

	same:
		if sv, st := snapV(bp), snapV(twin); sv != st {
			return fail(i, o, "tree-differs", o.K+" left a virtual tree that differs from the twin", fsx.Diff(st, sv))
		}

		if got.Err == "ok" && isMutator(o.K) {
			okMut++
		}

		if strings.Contains(o.P+o.Q, "..") || (o.P != "" && !strings.HasPrefix(o.P, "/")) {
			tricky++
		}
	}

	sim.Deactivate()
	be.CloseAll()
	te.CloseAll()

	res.Trace = tr
	res.TraceHash = sim.HashString(fmt.Sprint(tr.FS, tr.Calls))
	res.Nontrivial = okMut >= 3 && tricky >= 2
	c.Count("runs_"+kind, 1)
	c.Count("calls_with_dotdot_or_relative", int64(tricky))

	_ = os.O_RDONLY

	return res
}

var errPathRE = regexp.MustCompile(` err(path|old|new)="((?:[^"\\]|\\.)*)"`) //nolint:gochecknoglobals // parser.

// bpNormalise makes the results of BasePathFS and twin comparable where the statement does not demand
// string equality: paths embedded in errors are compared as absolute clean virtual paths (and must not
// reveal B), names of temporary files are random, and the name reported for the virtual root is judged apart.
func bpNormalise(bp, twin avfs.VFS, o fsx.Op, got, want fsx.Result) (g, w string, soft *sim.Violation) {
	if strings.HasPrefix(o.K, "F") {
		// the error of a handle method names the file as it was opened: a standalone file system repeats the
		// string it was given, which can only be compared when that string was absolute.
		if m := errPathRE.FindStringSubmatch(want.Data); m != nil && !strings.HasPrefix(m[2], "/") {
			got.Data = errPathRE.ReplaceAllString(got.Data, "")
			want.Data = errPathRE.ReplaceAllString(want.Data, "")
		}
	}

	norm := func(v avfs.VFS, r fsx.Result) (string, []string) {
		var paths []string

		data := errPathRE.ReplaceAllStringFunc(r.Data, func(m string) string {
			sm := errPathRE.FindStringSubmatch(m)
			p, _ := strconv.Unquote(`"` + sm[2] + `"`)
			a, _ := v.Abs(p)

			if o.K == "CreateTemp" || o.K == "MkdirTemp" {
				a = v.Dir(a) + "/<temp>"
			}

			paths = append(paths, a)

			return " err" + sm[1] + "=" + a
		})

		return r.Err + " " + data, paths
	}

	g, gp := norm(twin, got) // lexical helpers of the twin: the harness never leans on the wrapper under test
	w, _ = norm(twin, want)

	if o.K == "Rename" && got.Err != "ok" && want.Err != "ok" {
		if a, _ := twin.Abs(o.P); a == "/" {
			// moving the root fails on both sides; which of two applicable errors is reported first is not compared.
			return "refused", "refused", nil
		}
	}

	_ = gp // a path that revealed B would differ from the twin's normalised path.

	if o.K == "Glob" && got.Err == "ok" && want.Err == "ok" {
		// filepath.Glob builds its matches from the pattern's own directory part (relative patterns give relative
		// matches); the statement asks for the same existing paths in the virtual namespace: compare as sets of absolute clean paths.
		set := func(v avfs.VFS, data string) string {
			if data == "nil" || data == "" {
				return "nil"
			}

			var out []string

			for _, m := range strings.Split(data, ",") {
				a, _ := v.Abs(m)
				out = append(out, a)
			}

			sort.Strings(out)

			return strings.Join(out, ",")
		}

		return set(bp, got.Data), set(twin, want.Data), nil
	}

	if (o.K == "Stat" || o.K == "Lstat") && got.Err == "ok" && want.Err == "ok" && (twin.Clean(o.P) != o.P || !strings.HasPrefix(o.P, "/")) {
		// the reported name is the last element of the string given (as os.Stat does); BasePathFS hands a cleaned
		// path to its base: for unclean paths only the attributes are compared (the root's own name is judged below).
		if gf := strings.Fields(got.Data); len(gf) > 0 && gf[0] != "a" {
			return statRest(got.Data), statRest(want.Data), nil
		}
	}

	if o.K == "FStat" && got.Err == "ok" && want.Err == "ok" {
		// the name reported by a handle derives from the string it was opened with ("/f/f/.." gives ".." on the
		// twin, as os.File does, and "f" through BasePathFS which cleans the path): only the attributes are compared.
		gf, wf := strings.Fields(got.Data), strings.Fields(want.Data)
		if len(gf) > 1 && len(wf) > 1 && gf[0] != "a" {
			g = strings.Join(gf[1:], " ")
			w = strings.Join(wf[1:], " ")

			return g, w, nil
		}
	}

	// FileInfo of the virtual root: everything but the name must agree; the name is judged apart.
	if (o.K == "Stat" || o.K == "Lstat" || o.K == "FStat") && got.Err == "ok" && want.Err == "ok" && g != w {
		gf, wf := strings.Fields(got.Data), strings.Fields(want.Data)
		rest := func(f []string) string {
			for i, x := range f {
				if x == "d" || x == "f" {
					return strings.Join(f[i:], " ")
				}
			}

			return strings.Join(f, " ")
		}

		if len(gf) > 0 && gf[0] == "a" && (len(wf) == 0 || wf[0] != "a") && rest(gf) == rest(wf) {
			// same object, only the reported name differs: the root of the BasePathFS shows the base directory's name.
			return w, w, &sim.Violation{
				Prop: "C10", Class: "root-name", Sig: "FileInfo.Name of the virtual root reveals the name of the base directory",
				Msg: fmt.Sprintf("%s: BasePathFS %q, twin %q", o, got.Data, want.Data),
			}
		}
	}

	return g, w, nil
}
