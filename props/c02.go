package props

import (
	"fmt"
	"sort"
	"strings"

	"verif/fsx"
	"verif/sim"
)

// C02 — open-file I/O behaves as os.File.
type C02 struct{}

func (C02) ID() string { return "C02" }

func (C02) Describe() sim.Description {
	return sim.Description{
		Level: "exploration",
		Rule: "one case = a seeded history of 10-60 calls on 1-3 handles of one MemFS or OrefaFS file (plus a second file and directory handles), each handle opened with an arbitrary " +
			"flag combination, the handle calls Read, ReadAt, Write, WriteAt, WriteString, Seek (3 whences and an invalid one), Truncate, Stat, Sync, Chmod, Chown, Chdir, Close, ReadDir(n), " +
			"Readdirnames(n) interleaved (at call granularity, by the tape) with path-level Truncate, Rename, Link, Remove and WriteFile of that file; offsets, lengths and sizes drawn around " +
			"the current size (negative, 0, size-1, size, size+k, 70000); every written block unique. Each call is executed in lockstep on the *os.File of the chrooted helper: same byte count, " +
			"bytes, resulting offset (probed with Seek(0, Current) on both sides), error class; after every call the trees agree (content through every link). Directory handles: equal batch sizes, " +
			"and the union of the batches equals the directory once io.EOF is reached. non-trivial = at least 2 handles open at once and at least 4 successful reads or writes; distinct by hash of the calls",
		Explanation: "deterministic lockstep simulation against os.File; the 'fault' dimension is close, remove, rename and truncate of the file at an arbitrary instant under open handles",
		Assumptions: []string{"directory batches are compared by size and union (directory order is file-system specific)", "sizes and offsets bounded by 70000 (an in-memory file system allocates what it is asked to hold)"},
		RealCode:    []string{"vfs/memfs/memfs_file.go", "vfs/orefafs/orefafs_file.go", "os.File on tmpfs (reference)"},
		Stubs:       []string{"none"},
	}
}

type dirAcc struct {
	a, k   map[string]bool
	broken bool
}

func (p C02) Run(c *sim.Ctx, t *sim.Tape) sim.RunResult {
	kind := []string{"memfs", "orefafs"}[t.Int(2)]
	w, err := newE1World(c, kind, 0o022)

	if err != nil {
		return sim.RunResult{Harness: err.Error()}
	}

	filtered := !t.Chance(100)
	tr := seqTrace{FS: kind + " handle profile"}
	res := sim.RunResult{}
	acc := map[int]*dirAcc{}
	seeked := map[int]bool{}
	started := map[int]bool{}

	defer func() {
		w.env.CloseAll()
		sim.Deactivate()
	}()

	var dirProblem string

	w.norm = func(o fsx.Op, a, k *fsx.Result) {
		if o.K == "FClose" || o.K == "Open" || o.K == "OpenFile" {
			delete(acc, o.H)
			delete(seeked, o.H)
			delete(started, o.H)
		}

		if o.K == "FSeek" && o.H >= 0 && o.H < fsx.MaxHandles && w.env.IsDir[o.H] {
			// Seek on a directory handle is a recorded known finding; what the handle lists afterwards follows from it.
			seeked[o.H] = true
		}

		if o.K == "FReadDir" || o.K == "FReaddirnames" {
			started[o.H] = true
		}

		if (o.K == "FReadDir" || o.K == "FReaddirnames") && seeked[o.H] {
			*a, *k = fsx.Result{Err: "ok"}, fsx.Result{Err: "ok"}

			return
		}

		if (o.K == "FReadDir" || o.K == "FReaddirnames") && (o.N > 0 || acc[o.H] != nil) && a.Err != "nohandle" {
			// batches (and "the rest" after a batch) are compared by size and, at the end, by their union:
			// the order of a directory is file-system specific.
			d := acc[o.H]
			if d == nil {
				d = &dirAcc{a: map[string]bool{}, k: map[string]bool{}}
				acc[o.H] = d
			}

			split := func(r *fsx.Result, set map[string]bool) {
				cnt, names, _ := strings.Cut(r.Data, ":")

				for _, n := range strings.Split(names, ",") {
					if i := strings.IndexByte(n, ':'); i >= 0 {
						n = n[:i] // ReadDir gives name:type, Readdirnames the name
					}

					if n == "" {
						continue
					}

					if set[n] {
						dirProblem = fmt.Sprintf("handle %d delivered %q twice", o.H, n)
					}

					set[n] = true
				}

				r.Data = "count=" + cnt
			}

			split(a, d.a)
			split(k, d.k)

			if d.broken {
				// the directory changed while the handle was mid-way: os.File streams the live directory, what it
				// still delivers is not specified; nothing is compared for this handle until it is reopened.
				*a, *k = fsx.Result{Err: "ok"}, fsx.Result{Err: "ok"}
				dirProblem = ""
			}

			if ((a.Err == "EOF" && k.Err == "EOF") || o.N <= 0) && !d.broken && a.Err == k.Err {
				if x, y := keysOf(d.a), keysOf(d.k); strings.Join(x, ",") != strings.Join(y, ",") {
					dirProblem = fmt.Sprintf("handle %d: union of the batches %v differs from os.File's %v", o.H, x, y)
				}

				delete(acc, o.H)
			}
		}
	}

	hot := "/a/f"
	steps := []fsx.Op{
		{K: "Mkdir", P: "/a", Perm: 0o755}, {K: "Mkdir", P: "/a/d", Perm: 0o755}, {K: "WriteFile", P: "/a/f", Data: "0123456789", Perm: 0o644},
		{K: "WriteFile", P: "/a/g", Data: "gg", Perm: 0o644}, {K: "WriteFile", P: "/a/d/x", Data: "x", Perm: 0o600}, {K: "WriteFile", P: "/a/d/y", Data: "y", Perm: 0o600},
		{K: "Mkdir", P: "/a/d/z", Perm: 0o700},
	}

	i := 0
	open, okIO := 0, 0

	do := func(o fsx.Op) bool {
		if filtered && len(opPathsOf(o)) > 0 && w.avoided(c, "C02", o) {
			o = insteadOf(o)
		}

		out := w.step(c, "C02", i, o, w.env, 0, 0, 0o022)
		i++
		res.Steps++
		tr.Calls = append(tr.Calls, o.String())
		tr.Outcomes = append(tr.Outcomes, out.a.String())

		if out.harness != "" {
			res.Harness = out.harness

			return true
		}

		if out.cut {
			return true
		}

		if out.violation == nil && dirProblem != "" {
			out.violation = &sim.Violation{Prop: "C02", Class: "dir-batches", Sig: kind + "|" + o.K + "|directory handle batches", Msg: dirProblem}
		}

		if out.violation != nil {
			tr.Verdict = out.violation.Msg
			res.Trace = tr
			res.Violation = out.violation

			return true
		}

		if out.a.Err == "ok" {
			switch o.K {
			case "FRead", "FReadAt", "FWrite", "FWriteAt", "FWriteString":
				okIO++
			}
		}

		// a change of the directory while a handle is mid-way makes its batches incomparable.
		if isMutator(o.K) && !strings.HasPrefix(o.K, "F") {
			for _, d := range acc {
				d.broken = true
			}

			// a handle that has started to list a directory which then changes: treated like a moved stream.
			for h := range started {
				seeked[h] = true
			}
		}

		n := 0

		for _, f := range w.env.H {
			if f != nil {
				n++
			}
		}

		if n > open {
			open = n
		}

		return false
	}

	for _, o := range steps {
		if do(o) {
			return res
		}
	}

	sizes := func() int64 {
		size := int64(10)

		for k := range w.snap.Nodes {
			if w.snap.Nodes[k].Path == hot {
				size = w.snap.Nodes[k].Size
			}
		}

		return []int64{-1, -3, 0, 1, size - 1, size, size + 1, size + 5, 3, 70000}[t.Int(10)]
	}

	kinds := []string{
		"OpenFile", "FRead", "FReadAt", "FWrite", "FWriteAt", "FWriteString", "FSeek", "FTruncate", "FStat", "FSync", "FChmod", "FChown", "FChdir", "FClose",
		"FReadDir", "FReaddirnames", "Truncate", "Rename", "Link", "Remove", "WriteFile", "ReadFile", "Open", "RemoveAll",
	}
	weights := []int{8, 7, 4, 8, 4, 2, 6, 3, 2, 1, 1, 1, 1, 3, 3, 3, 2, 2, 2, 2, 2, 1, 2, 1}

	for q := 0; q < 60 && (q < 10 || t.Chance(950)); q++ {
		o := fsx.Op{K: kinds[t.Weighted(weights)], H: t.Int(3)}
		file := []string{hot, hot, hot, "/a/g", "/a/d", "/a/h"}[t.Int(6)]

		switch o.K {
		case "OpenFile":
			o.P, o.Flag, o.Perm = file, genFlags(t), 0o644
		case "Open":
			o.P = []string{"/a/d", "/a", hot}[t.Int(3)]
		case "FRead":
			o.N = []int{0, 1, 3, 8, 20}[t.Int(5)]
		case "FReadAt":
			o.N, o.Size = []int{0, 1, 4, 20}[t.Int(4)], sizes()
		case "FWrite", "FWriteString":
			o.Data = fmt.Sprintf("<%d>", q)
			if t.Chance(100) {
				o.Data = ""
			}
		case "FWriteAt":
			o.Data, o.Size = fmt.Sprintf("<%d>", q), sizes()
		case "FSeek":
			o.Size, o.N = sizes(), []int{0, 1, 2, 0, 1, 2, 5, -1}[t.Int(8)]
		case "FTruncate":
			o.Size = sizes()
		case "FChmod":
			o.Perm = []uint32{0o600, 0o644, 0o400, 0o000}[t.Int(4)]
		case "FChown":
			o.Uid, o.Gid = []int{0, 1000, -1}[t.Int(3)], []int{0, 1000, -1}[t.Int(3)]
		case "FReadDir", "FReaddirnames":
			o.N = []int{1, 2, -1, 0, 5}[t.Int(5)]
		case "Truncate":
			o.P, o.Size = file, sizes()
		case "Rename":
			o.P, o.Q = file, []string{"/a/h", "/a/g", hot, "/a/d/r"}[t.Int(4)]
		case "Link":
			o.P, o.Q = file, []string{"/a/h", "/a/k", "/a/d/r"}[t.Int(3)]
		case "Remove", "ReadFile":
			o.P = file
		case "RemoveAll":
			// the file, or the directory it is in, goes while handles on it are open.
			o.P = []string{file, "/a/d", "/a"}[t.Int(3)]
		case "WriteFile":
			o.P, o.Data, o.Perm = file, fmt.Sprintf("<w%d>", q), 0o644
		}

		if do(o) {
			return res
		}
	}

	res.Trace = tr
	res.TraceHash = sim.HashString(fmt.Sprint(tr.FS, tr.Calls))
	res.Nontrivial = open >= 2 && okIO >= 4
	c.Count("runs_"+kind, 1)
	c.Count("successful_reads_writes", int64(okIO))

	_ = sort.Strings

	return res
}
