package props

import (
	"fmt"
	"os"
	"strings"

	"github.com/avfs/avfs"
	"github.com/avfs/avfs/idm/memidm"
	"github.com/avfs/avfs/vfs/memfs"
	"github.com/avfs/avfs/vfs/orefafs"

	"verif/fsx"
	"verif/sim"
)

// concCfg is the generated configuration of one concurrent simulation (E2).
type concCfg struct {
	FS         string     `json:"fs"`
	Symlinks   bool       `json:"symlinks,omitempty"`
	HardLink   bool       `json:"hardlink,omitempty"`
	Users      bool       `json:"users,omitempty"`
	SharedH    bool       `json:"shared_handle,omitempty"`
	TempDomain int        `json:"temp_domain,omitempty"`
	Windows    bool       `json:"windows_typed,omitempty"`   // the instance emulates Windows (builds with avfs_setostype only)
	Focus      int        `json:"focus,omitempty"`           // 0: whole path pool; 1-3: one directory and its entries only
	PreOpen    []string   `json:"pre_open,omitempty"`        // per client: path held open on handle 0 when the concurrent phase starts ("" = none)
	PreAppend  bool       `json:"pre_open_append,omitempty"` // files are pre-opened with O_APPEND
	Strategy   int        `json:"strategy"`
	PreemptPM  int        `json:"preempt_permille,omitempty"`
	Pair       bool       `json:"pair_mode,omitempty"` // two clients, one or two calls each on one directory, handles pre-opened
	Progs      [][]fsx.Op `json:"-"`
}

// world is one instance of the system under simulation: a shared tree and one Env per client.
type world struct {
	cfg  *concCfg
	fs   avfs.VFS
	mem  *memfs.MemFS
	ore  *orefafs.OrefaFS
	envs []*fsx.Env
	idm  *memidm.MemIdm
}

var topNames = []string{"a", "b", "home", "root", "tmp", "x", "y"} //nolint:gochecknoglobals // top-level universe.

const sharedSlot = fsx.MaxHandles - 1

// buildWorld creates a fresh instance with the initial tree. Runs on the main goroutine,
// outside any simulated client (the hooks pass through).
func buildWorld(cfg *concCfg, nclients int) *world {
	w := &world{cfg: cfg}

	ost := avfs.OsLinux
	if cfg.Windows {
		ost = avfs.OsWindows
	}

	switch cfg.FS {
	case "orefafs":
		w.ore = orefafs.NewWithOptions(&orefafs.Options{OSType: ost})
		w.fs = w.ore
	default:
		w.idm = memidm.NewWithOptions(&memidm.Options{OSType: ost})
		w.mem = memfs.NewWithOptions(&memfs.Options{OSType: ost, Idm: w.idm})
		w.fs = w.mem
	}

	v := w.fs
	_ = v.SetUMask(0o022)
	_ = v.Mkdir("/a", 0o777)
	_ = v.Mkdir("/b", 0o777)
	_ = v.Mkdir("/a/d", 0o777)
	_ = v.WriteFile("/a/f", []byte("AAAA"), 0o666)
	_ = v.WriteFile("/b/g", []byte("BB"), 0o666)
	_ = v.WriteFile("/a/d/h", []byte("H"), 0o666)
	// a second file in every directory: a rename can then replace a file by a file.
	_ = v.WriteFile("/a/e", []byte("EE"), 0o666)
	_ = v.WriteFile("/a/d/i", []byte("I"), 0o666)
	_ = v.WriteFile("/b/j", []byte("JJJ"), 0o666)

	if cfg.HardLink {
		_ = v.Link("/a/f", "/b/k")
	}

	if cfg.Symlinks && w.mem != nil {
		_ = v.Symlink("f", "/a/l")
		_ = v.Symlink("/b", "/a/lb")
	}

	if w.mem != nil {
		_ = v.Chmod("/a", 0o777)
		_ = v.Chmod("/b", 0o777)
		_ = v.Chmod("/a/d", 0o777)
		_ = v.Chmod("/a/f", 0o666)
		_ = v.Chmod("/b/g", 0o666)
	}

	var users []avfs.UserReader

	if cfg.Users && w.idm != nil {
		_, _ = w.idm.AddGroup("g1")
		u1, _ := w.idm.AddUser("u1", "g1")
		u2, _ := w.idm.AddUser("u2", "g1")
		users = []avfs.UserReader{w.idm.AdminUser(), u1, u2}
	}

	var shared avfs.File

	if cfg.SharedH {
		shared, _ = v.OpenFile("/b/g", os.O_RDWR, 0)
	}

	for i := 0; i < nclients; i++ {
		e := &fsx.Env{VFS: v}

		if w.mem != nil {
			// documented concurrent use of MemFS: one Sub view per goroutine.
			if sub, err := w.mem.Sub("/"); err == nil {
				e.VFS = sub

				if len(users) > 0 {
					_ = sub.SetUser(users[i%len(users)])
				}
			}
		}

		if shared != nil {
			e.H[sharedSlot] = shared
		}

		if i < len(cfg.PreOpen) && cfg.PreOpen[i] != "" {
			// a handle opened before the concurrent phase (directories read-only, files read-write).
			flag := os.O_RDWR
			if cfg.PreAppend {
				flag |= os.O_APPEND
			}

			if info, err := v.Stat(cfg.PreOpen[i]); err == nil && info.IsDir() {
				flag = os.O_RDONLY
			}

			_ = e.Exec(fsx.Op{K: "OpenFile", P: cfg.PreOpen[i], Flag: flag, H: 0})
		}

		w.envs = append(w.envs, e)
	}

	return w
}

// digest is the full observable state: tree snapshot plus every client's handle states.
func (w *world) digest() (string, *fsx.Snap) {
	sn := fsx.Snapshot(w.fs, "/", fsx.SnapOpts{Tops: topNames})

	var b strings.Builder

	b.WriteString(sn.String())

	for ci, e := range w.envs {
		for h, f := range e.H {
			if f == nil {
				continue
			}

			if h == sharedSlot && ci > 0 && w.cfg.SharedH {
				continue
			}

			st := e.Exec(fsx.Op{K: "FStat", H: h})
			fmt.Fprintf(&b, "c%dh%d %s", ci, h, st)

			if st.Err == "ok" && !e.IsDir[h] {
				pos, err := f.Seek(0, 1)
				fmt.Fprintf(&b, " off=%d/%s", pos, fsx.ErrClass(err))

				buf := make([]byte, 256)
				n, _ := f.ReadAt(buf, 0)
				fmt.Fprintf(&b, " data=%q", buf[:n])
			}

			b.WriteByte('\n')
		}
	}

	return b.String(), sn
}

var concPaths = []string{ //nolint:gochecknoglobals // path pool: small on purpose, so that calls collide.
	"/a/x", "/b/x", "/a/f", "/b/g", "/a/d", "/a/y", "/a/d/h", "/a/d/x", "/a", "/b", "/b/k", "/a/l", "/a/lb/x", "/a/x/z", "/", "/a/x/..", "",
}

var focusPaths = [][]string{ //nolint:gochecknoglobals // one directory and its entries.
	nil,
	{"/a/x", "/a/f", "/a/y", "/a/d", "/a", "/a/e"},
	{"/a/d/h", "/a/d/x", "/a/d", "/a/d/y", "/a/d/i"},
	{"/b/g", "/b/x", "/b/k", "/b", "/b/j"},
}

func pickPath(t *sim.Tape, cfg *concCfg, adversarial bool) string {
	if cfg.Focus > 0 && !t.Chance(100) {
		fp := focusPaths[cfg.Focus]
		if cfg.Symlinks && cfg.Focus == 1 {
			fp = append(append([]string(nil), fp...), "/a/l", "/a/lb")
		}

		return fp[t.Int(len(fp))]
	}

	n := 8
	if adversarial {
		n = len(concPaths)
	} else if cfg.Symlinks {
		n = 13
	} else {
		n = 11
	}

	return concPaths[t.Int(n)]
}

var openFlagSets = []int{ //nolint:gochecknoglobals // flag combinations.
	os.O_RDONLY, os.O_RDWR, os.O_WRONLY | os.O_CREATE, os.O_RDWR | os.O_CREATE | os.O_EXCL, os.O_WRONLY | os.O_CREATE | os.O_TRUNC,
	os.O_WRONLY | os.O_APPEND, os.O_RDWR | os.O_CREATE | os.O_APPEND, os.O_WRONLY | os.O_TRUNC, os.O_RDWR | os.O_TRUNC | os.O_EXCL,
	os.O_RDONLY | os.O_CREATE,
}

// genFlags draws open flags: a curated combination, or any access mode with any subset of the other flags.
func genFlags(t *sim.Tape) int {
	if t.Chance(500) {
		return openFlagSets[t.Int(len(openFlagSets))]
	}

	f := []int{os.O_RDONLY, os.O_WRONLY, os.O_RDWR}[t.Int(3)]

	for _, x := range []int{os.O_APPEND, os.O_CREATE, os.O_EXCL, os.O_TRUNC, os.O_SYNC} {
		if t.Chance(300) {
			f |= x
		}
	}

	return f
}

// genConcOp draws one call. uniq makes written data attributable to its call.
func genConcOp(t *sim.Tape, cfg *concCfg, adversarial bool, uniq string) fsx.Op {
	weights := []int{5, 5, 6, 3, 4, 3, 2, 2, 2, 2, 2, 2, 1, 1, 1, 1, 1, 1, 1, 1, 2, 1}
	kinds := []string{
		"Mkdir", "Remove", "Rename", "Link", "OpenFile", "FWrite", "FClose", "Truncate", "Stat", "Lstat",
		"FRead", "FReadDir", "MkdirAll", "RemoveAll", "CreateTemp", "MkdirTemp", "Chmod", "Symlink", "Readlink", "FTruncate",
		"FWriteAt", "FReadAt",
	}

	if cfg.FS == "orefafs" {
		weights[17], weights[18] = 0, 0
	}

	if cfg.Pair {
		// every template equally likely: the pairs are what is being covered.
		for i := range weights {
			if weights[i] > 0 {
				weights[i] = 1
			}
		}
	}

	if cfg.TempDomain == 0 {
		weights[14], weights[15] = 0, 0
	}

	k := kinds[t.Weighted(weights)]
	o := fsx.Op{K: k}

	hnd := func() int {
		if cfg.Pair {
			return 0 // the pre-opened handle
		}

		return t.Int(2)
	}

	switch k {
	case "Mkdir", "MkdirAll":
		o.P = pickPath(t, cfg, adversarial)
		o.Perm = 0o755
	case "Remove", "RemoveAll", "Stat", "Lstat", "Readlink":
		o.P = pickPath(t, cfg, adversarial)
	case "Rename", "Link":
		o.P = pickPath(t, cfg, adversarial)
		o.Q = pickPath(t, cfg, adversarial)
	case "Symlink":
		o.P = []string{"f", "/b", "x", "../b/g", "/a/l"}[t.Int(5)]
		o.Q = pickPath(t, cfg, adversarial)
	case "OpenFile":
		o.P = pickPath(t, cfg, adversarial)
		o.Flag = genFlags(t)
		o.Perm = 0o644
		o.H = hnd()
	case "FWrite":
		o.H = hnd()
		o.Data = uniq
	case "FRead":
		o.H = hnd()
		o.N = 8
	case "FClose", "FReadDir":
		o.H = hnd()
		o.N = -1
	case "FTruncate":
		o.H = hnd()
		o.Size = int64(t.Int(4))
	case "FWriteAt":
		o.H = hnd()
		o.Data = uniq
		o.Size = int64(t.Int(12))
	case "FReadAt":
		o.H = hnd()
		o.N = 6
		o.Size = int64(t.Int(8))
	case "Truncate":
		o.P = pickPath(t, cfg, adversarial)
		o.Size = int64(t.Int(6))

		if adversarial && t.Chance(200) {
			o.Size = -1
		}
	case "Chmod":
		o.P = pickPath(t, cfg, adversarial)
		o.Perm = []uint32{0o777, 0o755, 0o700, 0o000, 0o644}[t.Int(5)]
	case "CreateTemp":
		o.P = []string{"/a", "/tmp", "/a/d"}[t.Int(3)]
		o.Q = "t*"
		o.H = hnd()
	case "MkdirTemp":
		o.P = []string{"/a", "/tmp", "/a/d"}[t.Int(3)]
		o.Q = "t*"
	}

	if cfg.SharedH && strings.HasPrefix(k, "F") && t.Chance(400) {
		o.H = sharedSlot
	}

	return o
}

// genConc draws a whole concurrent program.
// deeper returns the factor by which the thorough tier lengthens a history or widens a program in half of its runs.
func deeper(c *sim.Ctx, t *sim.Tape) int {
	if c != nil && c.Tier == "thorough" && t.Chance(500) {
		return 2
	}

	return 1
}

func genConc(t *sim.Tape, fsKinds []string, maxClients, maxOps int, adversarial bool) *concCfg {
	cfg := &concCfg{FS: fsKinds[t.Int(len(fsKinds))]}
	cfg.HardLink = t.Chance(400)
	cfg.Symlinks = cfg.FS == "memfs" && t.Chance(300)
	cfg.Strategy = t.Int(4)
	cfg.PreemptPM = []int{20, 100, 300}[t.Int(3)]

	if t.Chance(300) {
		cfg.TempDomain = t.Range(2, 3)
	}

	if avfs.BuildFeatures()&avfs.FeatSetOSType != 0 && t.Chance(250) {
		// an instance that emulates Windows (builds with avfs_setostype): other error values, both separators.
		cfg.Windows = true
		cfg.Symlinks = false
	}

	n := 2
	for n < maxClients && t.Chance(350) {
		n++
	}

	if t.Chance(300) {
		cfg.Pair = true
		n = 2
	}

	if cfg.Pair || t.Chance(350) {
		cfg.Focus = 1 + t.Int(3)
	}

	if cfg.Pair || t.Chance(400) {
		cfg.PreOpen = make([]string, n)
		pool := []string{"/a", "/a/d", "/b", "/a/f", "/b/g", "/a/d/h"}

		if cfg.Focus > 0 {
			pool = [][]string{nil, {"/a", "/a/f", "/a/d"}, {"/a/d", "/a/d/h"}, {"/b", "/b/g"}}[cfg.Focus]
		}

		for ci := range cfg.PreOpen {
			if cfg.Pair || t.Chance(600) {
				cfg.PreOpen[ci] = pool[t.Int(len(pool))]
			}
		}

		cfg.PreAppend = t.Chance(400)
	}

	cfg.Progs = make([][]fsx.Op, n)

	if cfg.Pair && t.Chance(400) {
		// the classic races, by design rather than by luck: two calls built around one name of the focus directory.
		pairTemplate(t, cfg)

		return cfg
	}

	for ci := 0; ci < n; ci++ {
		for j := 0; j < maxOps && (j == 0 || (!cfg.Pair && t.Chance(600)) || (cfg.Pair && j == 1 && t.Chance(250))); j++ {
			cfg.Progs[ci] = append(cfg.Progs[ci], genConcOp(t, cfg, adversarial, fmt.Sprintf("<%d.%d>", ci, j)))
		}
	}

	return cfg
}

// pairTemplate fills a two-client program from a table of conflicting pairs: D the focus directory, e1 and e2 two
// files in it, n a free name in it, sub a directory below it (or next to it).
func pairTemplate(t *sim.Tape, cfg *concCfg) {
	type names struct{ D, e1, e2, n, other string }

	nm := []names{
		{}, {"/a", "/a/f", "/a/e", "/a/x", "/b"}, {"/a/d", "/a/d/h", "/a/d/i", "/a/d/x", "/b"}, {"/b", "/b/g", "/b/j", "/b/x", "/a/d"},
	}[cfg.Focus]

	excl := os.O_RDWR | os.O_CREATE | os.O_EXCL
	query := func() fsx.Op {
		return []fsx.Op{
			{K: "Stat", P: nm.e1}, {K: "Lstat", P: nm.e1}, {K: "OpenFile", P: nm.e1, Flag: os.O_RDONLY, H: 1}, {K: "Truncate", P: nm.e1, Size: 1},
		}[t.Int(4)]
	}
	creator := func(uniq string) fsx.Op {
		return []fsx.Op{
			{K: "Mkdir", P: nm.n, Perm: 0o755}, {K: "OpenFile", P: nm.n, Flag: excl, Perm: 0o644, H: 1}, {K: "Link", P: nm.e1, Q: nm.n},
			{K: "Rename", P: nm.e2, Q: nm.n}, {K: "OpenFile", P: nm.n, Flag: os.O_WRONLY | os.O_CREATE, Perm: 0o644, H: 1}, {K: "MkdirAll", P: nm.n, Perm: 0o755},
		}[t.Int(6)]
	}

	var a, b fsx.Op

	cfg.PreOpen = []string{"", ""}

	switch t.Int(6) {
	case 0: // a query on a name while another file is renamed onto it
		a, b = query(), fsx.Op{K: "Rename", P: nm.e2, Q: nm.e1}
	case 1: // two creators of one name
		a, b = creator("<0.0>"), creator("<1.0>")
	case 2: // a name goes away while it is used
		a = []fsx.Op{{K: "Remove", P: nm.e1}, {K: "RemoveAll", P: nm.e1}, {K: "RemoveAll", P: nm.D}}[t.Int(3)]
		b = []fsx.Op{{K: "Rename", P: nm.e1, Q: nm.n}, {K: "Link", P: nm.e1, Q: nm.n}, query(), {K: "Remove", P: nm.e1}}[t.Int(4)]
	case 3: // two writers on one file through their own handles
		cfg.PreOpen = []string{nm.e1, nm.e1}
		a = fsx.Op{K: "FWrite", H: 0, Data: "<0.0>"}
		b = []fsx.Op{{K: "FWrite", H: 0, Data: "<1.0>"}, {K: "Truncate", P: nm.e1, Size: 0}, {K: "FTruncate", H: 0, Size: 1}}[t.Int(3)]
	case 4: // a directory is listed through a handle while its entries change
		cfg.PreOpen = []string{nm.D, ""}
		a = fsx.Op{K: []string{"FReadDir", "FReaddirnames"}[t.Int(2)], H: 0, N: -1}
		b = []fsx.Op{{K: "Link", P: nm.e1, Q: nm.n}, {K: "Rename", P: nm.e1, Q: nm.n}, {K: "Remove", P: nm.e1}, creator("<1.0>")}[t.Int(4)]
	default: // two directories moved into each other
		a = fsx.Op{K: "Rename", P: nm.D, Q: nm.other + "/x"}
		b = fsx.Op{K: "Rename", P: nm.other, Q: nm.D + "/y"}
	}

	cfg.Progs[0] = []fsx.Op{a}
	cfg.Progs[1] = []fsx.Op{b}
}

// concRun is the outcome of one concurrent simulation.
type concRun struct {
	W       *world
	S       *sim.Sched
	Verdict sim.Verdict
	Msg     string
	Hist    []sim.HistOp
	OkMut   int
	Trace   concTrace
}

type concTrace struct {
	Cfg       *concCfg    `json:"config"`
	Programs  [][]string  `json:"programs"`
	Outcomes  [][]string  `json:"outcomes"`
	Decisions []int       `json:"decisions"`
	Verdict   string      `json:"verdict"`
	Detail    string      `json:"detail,omitempty"`
	Final     []string    `json:"observed_final_state,omitempty"`
	Orders    []orderInfo `json:"sequential_orders,omitempty"`
}

type concIn struct {
	Client int
	Index  int
	Op     fsx.Op
}

// runConc executes cfg under the seeded scheduler. The caller must call r.S.Free().
func runConc(t *sim.Tape, cfg *concCfg) *concRun {
	n := len(cfg.Progs)
	w := buildWorld(cfg, n)
	s := sim.NewSched(t)
	s.Strategy = cfg.Strategy
	s.PreemptPM = cfg.PreemptPM
	s.TempDomain = cfg.TempDomain
	r := &concRun{W: w, S: s}
	r.Trace.Cfg = cfg

	for ci := 0; ci < n; ci++ {
		e := w.envs[ci]
		ops := make([]sim.OpFunc, len(cfg.Progs[ci]))
		strs := make([]string, len(cfg.Progs[ci]))

		for j, o := range cfg.Progs[ci] {
			o := o
			ops[j] = func() string { return e.Exec(o).String() }
			strs[j] = o.String()
		}

		s.AddClient(ops)
		r.Trace.Programs = append(r.Trace.Programs, strs)
	}

	r.Verdict, r.Msg = s.Run()
	sim.Deactivate()
	r.Trace.Decisions = sim.Ints(s.Decisions)
	r.Trace.Verdict = r.Verdict.String()
	r.Trace.Detail = r.Msg

	for ci := 0; ci < n; ci++ {
		var outs []string

		for j, rec := range s.Records(ci) {
			if !rec.Done {
				outs = append(outs, "(not completed)")

				continue
			}

			outs = append(outs, rec.Out)
			r.Hist = append(r.Hist, sim.HistOp{
				Client: ci, Index: j, In: concIn{ci, j, cfg.Progs[ci][j]}, Out: rec.Out, Call: rec.Invoke, Ret: rec.Return,
			})

			if strings.HasPrefix(rec.Out, "ok") && isMutator(cfg.Progs[ci][j].K) {
				r.OkMut++
			}
		}

		r.Trace.Outcomes = append(r.Trace.Outcomes, outs)
	}

	return r
}

func isMutator(k string) bool {
	switch k {
	case "Stat", "Lstat", "Readlink", "FRead", "FReadDir", "FStat", "ReadDir", "ReadFile", "Getwd", "EvalSymlinks", "Glob", "WalkDir":
		return false
	}

	return true
}

func (r *concRun) hash() uint64 {
	return sim.HashString(fmt.Sprint(r.Trace.Cfg, r.Trace.Programs, r.Trace.Decisions))
}
