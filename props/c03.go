package props

import (
	"fmt"

	"github.com/avfs/avfs"

	"verif/fsx"
	"verif/sim"
)

// C03 — permission and ownership enforcement equals Linux discretionary access control.
type C03 struct{}

func (C03) ID() string { return "C03" }

func (C03) Describe() sim.Description {
	return sim.Description{
		Level: "exploration",
		Rule: "one case = a MemFS tree of depth up to 3 (two directory chains for Rename/Link) built by the administrator with seeded owner, group and permission bits (incl. sticky) on every " +
			"node, three users u1(g1), u2(g1), u3(g2) in MemIdm with the numeric ids also used on the kernel side, and a seeded history of 10-50 path-taking calls issued by the users through " +
			"their own Sub(\"/\") views (own user and umask) and by the administrator, interleaved at call granularity by the tape; the administrator's chmod/chown of a node on a user's " +
			"path between two of that user's calls is the fault dimension (revocation / grant). Each call runs in lockstep in the chrooted helper under setfsuid/setfsgid/umask of the " +
			"acting user (no supplementary groups): same allow/deny and errno, same data, identical trees afterwards (so ownership and mode of created objects are compared). " +
			"non-trivial = at least 3 calls were refused for lack of permission and 3 succeeded for non-administrators; distinct by hash of tree + calls",
		Explanation: "deterministic lockstep simulation against the kernel's own access decision; interleaving of users at call granularity and permission changes at arbitrary instants come from the tape",
		Assumptions: []string{
			"group class = primary group only (the helper drops supplementary groups)",
			"fs.protected_hardlinks is 1 on this kernel: Link is issued only by the owner of the source or the administrator",
			"setuid/setgid bits are not generated (C01 records them as not emulated); a RemoveAll that fails is resynchronised by the administrator (documented partial effect)",
		},
		RealCode: []string{"vfs/memfs (checkPermission, searchNode, per-call checks)", "idm/memidm", "curuser.go, umask.go", "kernel DAC through osfs.OsFS (reference)"},
		Stubs:    []string{"none"},
	}
}

type c03User struct {
	uid, gid int
	umask    uint32
	env      *fsx.Env
	lastPath string
}

var c03Modes = []uint32{0o777, 0o755, 0o750, 0o700, 0o711, 0o555, 0o500, 0o070, 0o007, 0o000, 0o1777, 0o770, 0o775, 0o644, 0o600, 0o666, 0o444, 0o060, 0o1770, 0o733} //nolint:gochecknoglobals // permission bits.

func (p C03) Run(c *sim.Ctx, t *sim.Tape) sim.RunResult {
	w, err := newE1World(c, "memfs", 0o022)
	if err != nil {
		return sim.RunResult{Harness: err.Error()}
	}

	filtered := !t.Chance(100)
	tr := seqTrace{FS: "memfs permissions"}
	res := sim.RunResult{}

	defer func() {
		w.env.CloseAll()

		for _, e := range w.views {
			e.CloseAll()
		}

		sim.Deactivate()
	}()

	_, _ = w.idm.AddGroup("g1")
	_, _ = w.idm.AddGroup("g2")
	u1, e1 := w.idm.AddUser("u1", "g1")
	u2, e2 := w.idm.AddUser("u2", "g1")
	u3, e3 := w.idm.AddUser("u3", "g2")

	if e1 != nil || e2 != nil || e3 != nil {
		return sim.RunResult{Harness: "cannot create users"}
	}

	var users []*c03User

	for _, u := range []avfs.UserReader{u1, u2, u3} {
		sub, err := w.mem.Sub("/")
		if err != nil {
			return sim.RunResult{Harness: "Sub: " + err.Error()}
		}

		um := []uint32{0o022, 0o077, 0o002, 0o027, 0o000}[t.Int(5)]
		_ = sub.SetUser(u)
		_ = sub.SetUMask(avfsMode(um))
		users = append(users, &c03User{uid: u.Uid(), gid: u.Gid(), umask: um, env: &fsx.Env{VFS: sub}})
		w.views[u.Uid()] = users[len(users)-1].env
	}

	admin := &c03User{uid: 0, gid: 0, umask: 0o022, env: w.env}
	nusers := t.Range(2, 3)
	ids := []int{0, users[0].uid, users[1].uid, users[2].uid}
	gids := []int{0, users[0].gid, users[2].gid}
	i := 0
	denied, allowed := 0, 0

	do := func(who *c03User, o fsx.Op) (stop bool) {
		if filtered && len(opPathsOf(o)) > 0 && w.avoided(c, "C03", o) {
			o = insteadOf(o)
		}

		out := w.step(c, "C03", i, o, who.env, who.uid, who.gid, who.umask)
		i++
		res.Steps++
		tr.Calls = append(tr.Calls, fmt.Sprintf("uid%d/gid%d/umask%#o: %s", who.uid, who.gid, who.umask, o))
		tr.Outcomes = append(tr.Outcomes, out.a.String())

		if out.harness != "" {
			res.Harness = out.harness

			return true
		}

		if out.cut {
			return true
		}

		if out.violation != nil {
			// say who acted: the signature of a permission finding includes the class of the actor.
			out.violation.Sig = fmt.Sprintf("%s [actor %s]", out.violation.Sig, actorClass(who, o, w))
			tr.Verdict = out.violation.Msg
			res.Trace = tr
			res.Violation = out.violation

			return true
		}

		if who.uid != 0 {
			if out.a.Err == "EACCES" || out.a.Err == "EPERM" {
				denied++
			} else if out.a.Err == "ok" {
				allowed++
			}
		}

		return false
	}

	// tree
	build := []fsx.Op{
		{K: "Mkdir", P: "/p", Perm: 0o777}, {K: "Mkdir", P: "/p/q", Perm: 0o777}, {K: "WriteFile", P: "/p/q/f", Data: "F", Perm: 0o666},
		{K: "WriteFile", P: "/p/g", Data: "G", Perm: 0o666}, {K: "Mkdir", P: "/r", Perm: 0o777}, {K: "WriteFile", P: "/r/h", Data: "H", Perm: 0o666},
		{K: "Mkdir", P: "/r/s", Perm: 0o777}, {K: "Symlink", P: "/p/g", Q: "/r/l"}, {K: "Mkdir", P: "/p/q/e", Perm: 0o777},
	}

	for _, o := range build {
		if do(admin, o) {
			return res
		}
	}

	nodes := []string{"/p", "/p/q", "/p/q/f", "/p/g", "/r", "/r/h", "/r/s", "/p/q/e"}

	for _, n := range nodes {
		if do(admin, fsx.Op{K: "Chown", P: n, Uid: ids[t.Int(4)], Gid: gids[t.Int(3)]}) {
			return res
		}

		if do(admin, fsx.Op{K: "Chmod", P: n, Perm: c03Modes[t.Int(len(c03Modes))]}) {
			return res
		}
	}

	paths := []string{"/p", "/p/q", "/p/q/f", "/p/g", "/r", "/r/h", "/r/s", "/p/x", "/p/q/x", "/r/x", "/r/s/x", "/r/l", "/p/q/f/x", "/x", "/tmp/x", "/p/q/e", "/p/q/e/x"}
	path := func() string { return paths[t.Int(len(paths))] }
	kinds := []string{
		"Mkdir", "OpenFile", "Create", "WriteFile", "ReadFile", "ReadDir", "Remove", "RemoveAll", "Rename", "Link", "Symlink", "Truncate", "Chmod", "Chown",
		"Chtimes", "Chdir", "Stat", "Lstat", "Readlink", "MkdirAll", "Lchown",
		// what an open handle still allows after the permissions of its file have changed (decided at open time by the kernel).
		"FWrite", "FTruncate", "FRead", "FChmod", "FChown", "FStat", "FClose", "FReadDir",
	}
	weights := []int{5, 6, 2, 4, 4, 3, 5, 1, 6, 3, 2, 2, 3, 2, 2, 2, 3, 2, 1, 1, 1, 3, 3, 2, 1, 1, 1, 2, 1}

	for q, lim := 0, 50*deeper(c, t); q < lim && (q < 10 || t.Chance(950+20*(lim/100))); q++ {
		// the administrator interferes from time to time.
		if t.Chance(200) {
			n := nodes[t.Int(len(nodes))]

			var o fsx.Op

			if t.Chance(700) {
				o = fsx.Op{K: "Chmod", P: n, Perm: c03Modes[t.Int(len(c03Modes))]}
			} else {
				o = fsx.Op{K: "Chown", P: n, Uid: ids[t.Int(4)], Gid: gids[t.Int(3)]}
			}

			if do(admin, o) {
				return res
			}

			c.Count("administrator_interventions", 1)

			continue
		}

		who := users[t.Int(nusers)]

		if t.Chance(60) {
			who = admin
		}

		if t.Chance(60) && who != admin {
			who.umask = []uint32{0o022, 0o077, 0o002, 0o027, 0o000}[t.Int(5)]
			_ = who.env.VFS.SetUMask(avfsMode(who.umask))
			c.Count("umask_changes", 1)
		}

		o := fsx.Op{K: kinds[t.Weighted(weights)]}

		// the helper has one handle table for everybody: each actor owns two slots of it.
		slot := 6 + t.Int(2)

		for ui, u := range users {
			if u == who {
				slot = 2*ui + t.Int(2)
			}
		}

		switch o.K {
		case "FWrite":
			o.H, o.Data = slot, fmt.Sprintf("<h%d>", q)
		case "FTruncate":
			o.H, o.Size = slot, int64(t.Int(3))
		case "FRead":
			o.H, o.N = slot, 4
		case "FChmod":
			o.H, o.Perm = slot, c03Modes[t.Int(len(c03Modes))]
		case "FChown":
			o.H, o.Uid, o.Gid = slot, ids[t.Int(4)], gids[t.Int(3)]
		case "FStat", "FClose":
			o.H = slot
		case "FReadDir":
			o.H, o.N = slot, -1
		case "Mkdir", "MkdirAll":
			o.P, o.Perm = path(), []uint32{0o777, 0o755, 0o700, 0o1777, 0o1770}[t.Int(5)]
		case "OpenFile":
			o.P, o.Flag, o.Perm, o.H = path(), genFlags(t), []uint32{0o666, 0o644, 0o600, 0o777, 0o444, 0o400}[t.Int(6)], slot
		case "Create":
			o.P, o.H = path(), slot
		case "WriteFile":
			o.P, o.Data, o.Perm = path(), fmt.Sprintf("<%d>", q), []uint32{0o666, 0o640}[t.Int(2)]
		case "Rename":
			o.P, o.Q = path(), path()
		case "Link":
			o.P, o.Q = path(), path()
		case "Symlink":
			o.P, o.Q = "/p/g", path()
		case "Truncate":
			o.P, o.Size = path(), int64(t.Int(3))
		case "Chmod":
			o.P, o.Perm = path(), c03Modes[t.Int(len(c03Modes))]
		case "Chown", "Lchown":
			o.P, o.Uid, o.Gid = path(), ids[t.Int(4)], gids[t.Int(3)]
		case "Chtimes":
			o.P, o.Size = path(), 1000000
		default:
			o.P = path()
		}

		if o.K == "Link" && who != admin {
			// hardening (fs.protected_hardlinks): only issued by the owner of the source.
			own := false

			for k := range w.snap.Nodes {
				if w.snap.Nodes[k].Path == o.P && w.snap.Nodes[k].Uid == who.uid {
					own = true
				}
			}

			if !own {
				o = fsx.Op{K: "Stat", P: o.P}
			}
		}

		if do(who, o) {
			return res
		}
	}

	res.Trace = tr
	res.TraceHash = sim.HashString(fmt.Sprint(tr.Calls))
	res.Nontrivial = denied >= 3 && allowed >= 3
	c.Count("calls_refused_for_permission", int64(denied))
	c.Count("calls_allowed_to_users", int64(allowed))

	return res
}

// actorClass tells how the acting user relates to the first operand: owner, group, other or administrator.
func actorClass(who *c03User, o fsx.Op, w *e1World) string {
	if who.uid == 0 {
		return "admin"
	}

	for k := range w.snap.Nodes {
		n := &w.snap.Nodes[k]
		if n.Path == o.P {
			switch {
			case n.Uid == who.uid:
				return "owner"
			case n.Gid == who.gid:
				return "group"
			default:
				return "other"
			}
		}
	}

	return "user"
}
