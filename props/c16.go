package props

import (
	"bytes"
	"crypto/sha256"
	"encoding/hex"
	"errors"
	"fmt"
	"io/fs"
	"os"
	"strings"

	"github.com/avfs/avfs"
	"github.com/avfs/avfs/idm/memidm"
	"github.com/avfs/avfs/vfs/basepathfs"
	"github.com/avfs/avfs/vfs/failfs"
	"github.com/avfs/avfs/vfs/memfs"
	"github.com/avfs/avfs/vfs/orefafs"
	"github.com/avfs/avfs/vfs/osfs"
	"github.com/avfs/avfs/vfs/rofs"

	"verif/sim"
)

// C16 — CopyFile and HashFile report every failure and copy faithfully.
type C16 struct{}

func (C16) ID() string { return "C16" }

func (C16) Describe() sim.Description {
	return sim.Description{
		Level: "fault_enumeration",
		Rule: "one case = one (scenario, fault plan) execution of CopyFile, CopyFileHash or HashFile. Scenario = source size in {0, 1, 32767, 32768, 32769, 65536, 65537, random <= 100 KiB}, " +
			"source permission bits, source file system in {MemFS, OrefaFS, BasePathFS, RoFS, OsFS on a scratch directory}, destination in {MemFS, OrefaFS, BasePathFS, OsFS, RoFS}, hasher or none. " +
			"Plans, enumerated exhaustively per scenario from a recording fault-free run: 'fail the k-th invocation of primitive F' through FailFS on the source side and on the destination side, " +
			"plus simulated-disk faults (reads shortened to n bytes, a write that stores n bytes then fails, a short write without error, Close error, Sync error). Oracle: a nil error implies destination " +
			"bytes = source bytes, destination permission bits = source's, digest = SHA-256 of those bytes; a fired fault on open, read, write, sync, stat, chmod or destination close implies a non-nil error; short reads " +
			"must not change the result. A concurrent variant runs 2-3 copies at once under the seeded scheduler (shared buffer pool). non-trivial = the plan's fault fired (fault-free plan: copy succeeded); " +
			"distinct by hash of scenario + plan",
		Explanation: "deterministic simulation with fault injection at every I/O step of the copy: FailFS (repository code) and a harness decorator standing for the disk",
		Assumptions: []string{"a failed Close of the source handle may be ignored (as io and os helpers do); everything else in the statement's list must be reported"},
		RealCode:    []string{"copy.go", "vfs/failfs", "vfs/memfs", "vfs/orefafs", "vfs/basepathfs", "vfs/rofs", "vfs/osfs (scratch directory on tmpfs)"},
		Stubs:       []string{"simulated-disk decorator (short reads, partial writes, close/sync errors) is harness code wrapping a real file system"},
	}
}

// diskFS decorates a VFS with disk-like faults on the files it opens.
type diskFS struct {
	avfs.VFS
	plan *diskPlan
}

type diskPlan struct {
	Kind  string // "", "shortread", "partialwrite", "shortwrite", "closeerr", "syncerr"
	N     int
	fired bool
}

var errDisk = errors.New("simulated disk error") //nolint:gochecknoglobals // sentinel.

func (d *diskFS) OpenFile(name string, flag int, perm fs.FileMode) (avfs.File, error) {
	f, err := d.VFS.OpenFile(name, flag, perm)
	if err != nil {
		return f, err
	}

	return &diskFile{File: f, plan: d.plan}, nil
}

func (d *diskFS) Create(name string) (avfs.File, error) {
	return d.OpenFile(name, os.O_RDWR|os.O_CREATE|os.O_TRUNC, avfs.DefaultFilePerm)
}

func (d *diskFS) Open(name string) (avfs.File, error) { return d.OpenFile(name, os.O_RDONLY, 0) }

type diskFile struct {
	avfs.File
	plan    *diskPlan
	written int
}

func (f *diskFile) Read(b []byte) (int, error) {
	if f.plan.Kind == "shortread" && len(b) > f.plan.N && f.plan.N > 0 {
		f.plan.fired = true
		b = b[:f.plan.N]
	}

	return f.File.Read(b)
}

func (f *diskFile) Write(b []byte) (int, error) {
	switch f.plan.Kind {
	case "partialwrite":
		if !f.plan.fired && f.written+len(b) > f.plan.N {
			f.plan.fired = true
			keep := f.plan.N - f.written

			if keep < 0 {
				keep = 0
			}

			n, _ := f.File.Write(b[:keep])

			return n, errDisk
		}
	case "shortwrite":
		if !f.plan.fired && len(b) > 1 {
			f.plan.fired = true
			n, _ := f.File.Write(b[:len(b)/2])

			return n, nil
		}
	}

	n, err := f.File.Write(b)
	f.written += n

	return n, err
}

func (f *diskFile) Close() error {
	err := f.File.Close()

	if f.plan.Kind == "closeerr" {
		f.plan.fired = true

		return errDisk
	}

	return err
}

func (f *diskFile) Sync() error {
	if f.plan.Kind == "syncerr" {
		f.plan.fired = true

		return errDisk
	}

	return f.File.Sync()
}

type c16Scenario struct {
	// Bare: the fault-free execution is repeated on the file systems themselves, without the FailFS that counts
	// the primitives (a file type may offer more to io.Copy than the wrapper shows).
	Bare bool `json:"bare,omitempty"`
	// DirSrc: the source path is a directory: nothing can be copied or hashed, the call must say so.
	DirSrc bool `json:"source_is_a_directory,omitempty"`

	Fn       string `json:"function"`
	Size     int    `json:"size"`
	Mode     uint32 `json:"mode"`
	Src      string `json:"src_fs"`
	Dst      string `json:"dst_fs"`
	Hasher   bool   `json:"hasher"`
	Seed     uint32 `json:"content_seed"`
	Existing bool   `json:"destination_exists"`
}

type c16Side struct {
	base   avfs.VFS // file system holding the bytes (for read-back)
	vfs    avfs.VFS // what is handed to the copy (before fault wrappers)
	path   string   // path handed to the copy
	rbPath string   // path for read-back on base
}

func c16Scratch(c *sim.Ctx) string {
	if d, ok := c.Aux["c16scratch"].(string); ok {
		return d
	}

	d := fmt.Sprintf("/dev/shm/avfs-verif-c16-%d", os.Getpid())
	_ = os.RemoveAll(d)
	_ = os.MkdirAll(d, 0o777)
	c.Aux["c16scratch"] = d
	c.Cleanups = append(c.Cleanups, func() { _ = os.RemoveAll(d) })

	return d
}

func c16MakeSide(c *sim.Ctx, kind, name string, n int) c16Side {
	mk := func(k string) avfs.VFS {
		if k == "orefafs" {
			v := orefafs.NewWithOptions(&orefafs.Options{OSType: avfs.OsLinux})
			_ = v.SetUMask(0o022)

			return v
		}

		v := memfs.NewWithOptions(&memfs.Options{OSType: avfs.OsLinux, Idm: memidm.NewWithOptions(&memidm.Options{OSType: avfs.OsLinux})})
		_ = v.SetUMask(0o022)

		return v
	}

	switch kind {
	case "osfs":
		dir := fmt.Sprintf("%s/%s%d", c16Scratch(c), name, n)
		_ = os.RemoveAll(dir)
		_ = os.MkdirAll(dir, 0o777)
		v := osfs.NewWithNoIdm()

		return c16Side{base: v, vfs: v, path: dir + "/file", rbPath: dir + "/file"}
	case "basepathfs":
		b := mk("memfs")
		_ = b.MkdirAll("/base/dir", 0o777)
		v, _ := basepathfs.NewWithErr(b, "/base")

		return c16Side{base: b, vfs: v, path: "/dir/file", rbPath: "/base/dir/file"}
	case "rofs":
		b := mk("memfs")
		_ = b.MkdirAll("/dir", 0o777)

		return c16Side{base: b, vfs: rofs.New(b), path: "/dir/file", rbPath: "/dir/file"}
	default:
		b := mk(kind)
		_ = b.MkdirAll("/dir", 0o777)

		return c16Side{base: b, vfs: b, path: "/dir/file", rbPath: "/dir/file"}
	}
}

func c16Content(seed uint32, size int) []byte {
	b := make([]byte, size)
	x := uint64(seed)*2654435761 + 1

	for i := range b {
		x = sim.SplitMix64(x)
		b[i] = byte(x)
	}

	return b
}

type c16Plan struct {
	Kind string     `json:"kind"` // none | failfs | disk
	Side string     `json:"side,omitempty"`
	Fn   avfs.FnVFS `json:"-"`
	FnS  string     `json:"primitive,omitempty"`
	K    int        `json:"k,omitempty"`
	Disk string     `json:"disk_fault,omitempty"`
	N    int        `json:"n,omitempty"`
}

type c16Inv struct {
	side string
	fn   avfs.FnVFS
}

type c16Out struct {
	violation *sim.Violation
	fired     bool
	ok        bool
	invs      []c16Inv
}

// c16Exec runs one scenario under one plan.
func c16Exec(c *sim.Ctx, sc c16Scenario, plan c16Plan, n int) c16Out {
	var out c16Out

	src := c16MakeSide(c, sc.Src, "src", n)
	dst := c16MakeSide(c, sc.Dst, "dst", n)
	content := c16Content(sc.Seed, sc.Size)

	if sc.DirSrc {
		if err := src.base.Mkdir(src.rbPath, 0o755); err != nil {
			return out
		}
	} else {
		if err := src.base.WriteFile(src.rbPath, content, 0o666); err != nil {
			return out
		}

		_ = src.base.Chmod(src.rbPath, fs.FileMode(sc.Mode))
	}

	if sc.Existing && sc.Dst != "rofs" {
		_ = dst.base.WriteFile(dst.rbPath, []byte("previous content of the destination, longer than nothing"), 0o600)
	}

	wrap := func(side string, v avfs.VFS) avfs.VFSBase {
		counts := map[avfs.FnVFS]int{}
		ff := failfs.New(v)
		_ = ff.SetFailFunc(func(_ avfs.VFSBase, fn avfs.FnVFS, _ *failfs.FailParam) error {
			counts[fn]++
			out.invs = append(out.invs, c16Inv{side, fn})

			if plan.Kind == "failfs" && plan.Side == side && plan.Fn == fn && plan.K == counts[fn] {
				out.fired = true

				return errInjected
			}

			return nil
		})

		var res avfs.VFS = ff

		if plan.Kind == "disk" && plan.Side == side {
			dp := &diskPlan{Kind: plan.Disk, N: plan.N}
			res = &diskFS{VFS: ff, plan: dp}
			c.Aux["c16disk"+side] = dp
		}

		return res
	}

	srcV := wrap("src", src.vfs)
	dstV := wrap("dst", dst.vfs)

	if plan.Kind == "bare" {
		srcV, dstV = src.vfs, dst.vfs
	}

	var (
		sum []byte
		err error
	)

	_, v, msg := sim.Call1(func() string {
		switch sc.Fn {
		case "HashFile":
			sum, err = avfs.HashFile(srcV, src.path, sha256.New())
		case "CopyFile":
			err = avfs.CopyFile(dstV, srcV, dst.path, src.path)
		default:
			if sc.Hasher {
				sum, err = avfs.CopyFileHash(dstV, srcV, dst.path, src.path, sha256.New())
			} else {
				sum, err = avfs.CopyFileHash(dstV, srcV, dst.path, src.path, nil)
			}
		}

		return ""
	})

	if v != sim.VOK {
		if v == sim.VHarness {
			return out
		}

		out.violation = &sim.Violation{
			Prop: "C16", Class: "did-not-return", Sig: sc.Fn + " " + v.String(),
			Msg: fmt.Sprintf("%s: %s", v, msg),
		}

		return out
	}

	diskFired, mustReport := false, false

	if plan.Kind == "disk" {
		if dp, ok := c.Aux["c16disk"+plan.Side].(*diskPlan); ok {
			diskFired = dp.fired
			out.fired = dp.fired
		}

		// short reads are legal; a Close error on the source may be ignored.
		mustReport = diskFired && plan.Disk != "shortread" && !(plan.Disk == "closeerr" && plan.Side == "src")
	}

	if plan.Kind == "failfs" && out.fired {
		mustReport = !(plan.Fn == avfs.FnFileClose && plan.Side == "src")
	}

	viol := func(class, sig, m string) c16Out {
		out.violation = &sim.Violation{Prop: "C16", Class: class, Sig: sc.Fn + " " + sig, Msg: m}

		return out
	}

	planS := fmt.Sprintf("%+v", plan)

	if mustReport && err == nil {
		what := plan.Disk
		if plan.Kind == "failfs" {
			what = plan.FnS
		}

		return viol("fault-swallowed", "returned nil although "+plan.Side+" "+what+" failed",
			fmt.Sprintf("scenario %+v plan %s: error is nil", sc, planS))
	}

	if sc.DirSrc && err == nil {
		return viol("directory-as-source", "returned nil although the source is a directory",
			fmt.Sprintf("scenario %+v plan %s: error is nil, digest %s", sc, planS, hex.EncodeToString(sum)))
	}

	if err != nil {
		return out
	}

	out.ok = true
	want := sha256.Sum256(content)

	if sc.Fn == "HashFile" || (sc.Fn == "CopyFileHash" && sc.Hasher) {
		if !bytes.Equal(sum, want[:]) {
			return viol("wrong-digest", "returned a digest that is not the digest of the source",
				fmt.Sprintf("scenario %+v plan %s: digest %s, want %s", sc, planS, hex.EncodeToString(sum), hex.EncodeToString(want[:])))
		}
	} else if sum != nil {
		return viol("wrong-digest", "returned a digest without hasher", fmt.Sprintf("scenario %+v", sc))
	}

	if sc.Fn == "HashFile" {
		return out
	}

	got, rerr := dst.base.ReadFile(dst.rbPath)
	if rerr != nil || !bytes.Equal(got, content) {
		return viol("wrong-content", "returned nil but the destination does not hold the source's bytes",
			fmt.Sprintf("scenario %+v plan %s: destination has %d bytes (read error %v), source %d; first difference at %d", sc, planS, len(got), rerr, len(content), firstDiff(got, content)))
	}

	si, e1 := src.base.Stat(src.rbPath)
	di, e2 := dst.base.Stat(dst.rbPath)

	if e1 != nil || e2 != nil || si.Mode().Perm() != di.Mode().Perm() {
		return viol("wrong-mode", "returned nil but the destination does not have the source's permission bits",
			fmt.Sprintf("scenario %+v plan %s: source %v destination %v (%v %v)", sc, planS, modeOf(si), modeOf(di), e1, e2))
	}

	return out
}

func modeOf(i fs.FileInfo) string {
	if i == nil {
		return "?"
	}

	return i.Mode().String()
}

func firstDiff(a, b []byte) int {
	for i := 0; i < len(a) && i < len(b); i++ {
		if a[i] != b[i] {
			return i
		}
	}

	if len(a) != len(b) {
		if len(a) < len(b) {
			return len(a)
		}

		return len(b)
	}

	return -1
}

type c16Trace struct {
	Scenario c16Scenario `json:"scenario"`
	Plan     string      `json:"plan"`
	Plans    int         `json:"plans_enumerated"`
	Invoked  []string    `json:"primitives_invoked,omitempty"`
}

func (p C16) Run(c *sim.Ctx, t *sim.Tape) sim.RunResult {
	if t.Chance(150) {
		return p.runConc(c, t)
	}

	sizes := []int{0, 1, 32767, 32768, 32769, 65536, 65537, -1, 100, 4096}
	sc := c16Scenario{
		Fn:   []string{"CopyFileHash", "CopyFile", "HashFile"}[t.Weighted([]int{5, 3, 2})],
		Size: sizes[t.Int(len(sizes))],
		Mode: []uint32{0o644, 0o600, 0o755, 0o400, 0o666, 0o640, 0o751, 0o000, 0o007}[t.Int(9)],
		Src:  []string{"memfs", "orefafs", "basepathfs", "rofs", "osfs"}[t.Weighted([]int{4, 3, 2, 2, 2})],
		Dst:  []string{"memfs", "orefafs", "basepathfs", "osfs", "rofs"}[t.Weighted([]int{4, 3, 2, 2, 1})],
		Seed: uint32(t.Int(1 << 16)),
	}
	sc.Hasher = t.Chance(600)
	sc.Existing = t.Chance(300)
	sc.Bare = t.Chance(250)
	sc.DirSrc = t.Chance(50)

	if sc.Size < 0 {
		sc.Size = t.Int(100*1024) + 1
	}

	res := sim.RunResult{}
	tr := c16Trace{Scenario: sc}
	n := c.Worker*1000 + int(c.Stats["scenarios"]%1000)
	c.Count("scenarios", 1)

	base := c16Exec(c, sc, c16Plan{Kind: "none"}, n)
	res.Cases = 1
	res.Steps++

	if base.violation != nil {
		tr.Plan = "fault-free"
		res.Trace = tr
		res.Violation = base.violation

		return res
	}

	if sc.Bare {
		bare := c16Exec(c, sc, c16Plan{Kind: "bare"}, n)
		res.Cases++
		res.Steps++

		c.Count("fault_free_without_wrapper", 1)

		if bare.violation != nil {
			tr.Plan = "fault-free, file systems not wrapped"
			res.Trace = tr
			res.Violation = bare.violation

			return res
		}
	}

	if sc.DirSrc {
		// nothing to inject into: the call fails before it copies.
		c.Count("source_is_a_directory", 1)

		res.Trace = tr
		res.TraceHash = sim.HashString(fmt.Sprintf("%+v", sc))

		return res
	}

	// every single-fault plan over the primitives the fault-free run invoked, on either side.
	var plans []c16Plan

	counts := map[c16Inv]int{}

	for _, inv := range base.invs {
		counts[inv]++
		plans = append(plans, c16Plan{Kind: "failfs", Side: inv.side, Fn: inv.fn, FnS: inv.fn.String(), K: counts[inv]})
		tr.Invoked = append(tr.Invoked, inv.side+":"+strings.TrimPrefix(inv.fn.String(), "Fn"))
	}

	for _, n := range []int{1, 7, 1000, 4096, 32767} {
		if sc.Size/n > 2000 {
			continue // keeps a single copy below the simulator's step budget
		}

		plans = append(plans, c16Plan{Kind: "disk", Side: "src", Disk: "shortread", N: n})
	}

	if sc.Fn != "HashFile" {
		for _, n := range []int{0, 1, sc.Size / 2, sc.Size - 1, 32768} {
			if n >= 0 && n < sc.Size {
				plans = append(plans, c16Plan{Kind: "disk", Side: "dst", Disk: "partialwrite", N: n})
			}
		}

		plans = append(plans,
			c16Plan{Kind: "disk", Side: "dst", Disk: "shortwrite"},
			c16Plan{Kind: "disk", Side: "dst", Disk: "closeerr"},
			c16Plan{Kind: "disk", Side: "dst", Disk: "syncerr"},
			c16Plan{Kind: "disk", Side: "src", Disk: "closeerr"})
	}

	fired := 0

	for _, pl := range plans {
		o := c16Exec(c, sc, pl, n)
		res.Cases++
		res.Steps++

		if pl.Kind == "disk" {
			c.Count("fault_disk_"+pl.Disk, 1)
		} else {
			c.Count("fault_"+pl.Side+"_"+strings.TrimPrefix(pl.FnS, "Fn"), 1)
		}

		if o.fired {
			fired++
			res.CaseHashes = append(res.CaseHashes, sim.HashString(fmt.Sprintf("%+v %+v", sc, pl)))
		}

		if o.violation != nil {
			tr.Plan = fmt.Sprintf("%+v", pl)
			tr.Plans = len(plans) + 1
			res.Trace = tr
			res.Violation = o.violation

			return res
		}
	}

	sim.Deactivate()

	tr.Plan = fmt.Sprintf("all %d plans", len(plans)+1)
	tr.Plans = len(plans) + 1
	res.Trace = tr
	res.TraceHash = sim.HashString(fmt.Sprintf("%+v", sc))
	res.Nontrivial = base.ok && fired > 0
	c.Count("faults_fired", int64(fired))
	c.Count("pair_"+sc.Src+"_to_"+sc.Dst, 1)

	return res
}

// runConc: 2-3 copies at once under the seeded scheduler (they share the package's buffer pool).
func (p C16) runConc(c *sim.Ctx, t *sim.Tape) sim.RunResult {
	n := t.Range(2, 3)
	v := memfs.NewWithOptions(&memfs.Options{OSType: avfs.OsLinux, Idm: memidm.NewWithOptions(&memidm.Options{OSType: avfs.OsLinux})})
	_ = v.SetUMask(0o022)
	_ = v.MkdirAll("/dir", 0o777)
	s := sim.NewSched(t)

	defer s.Free()

	s.Strategy = t.Int(4)
	s.PreemptPM = []int{100, 300, 500}[t.Int(3)]

	type job struct {
		content []byte
		src     string
		dst     string
		sum     []byte
		err     error
	}

	jobs := make([]*job, n)
	tr := map[string]any{"mode": "concurrent copies", "copies": n}

	for i := 0; i < n; i++ {
		size := []int{1000, 40000, 70000}[t.Int(3)]
		j := &job{content: c16Content(uint32(t.Int(1<<16)), size), src: fmt.Sprintf("/dir/s%d", i), dst: fmt.Sprintf("/dir/d%d", i)}
		_ = v.WriteFile(j.src, j.content, 0o644)
		jobs[i] = j
		sub, _ := v.Sub("/")
		s.AddClient([]sim.OpFunc{func() string {
			j.sum, j.err = avfs.CopyFileHash(sub, sub, j.dst, j.src, sha256.New())

			return fsErr(j.err)
		}})
	}

	verdict, msg := s.Run()
	sim.Deactivate()

	res := sim.RunResult{Steps: s.Steps, Trace: tr, TraceHash: sim.HashString(fmt.Sprint(n, sim.Ints(s.Decisions))), Cases: 1}
	res.Nontrivial = s.DecPoints > 0
	c.Count("concurrent_copy_runs", 1)

	if verdict == sim.VHarness {
		res.Harness = msg

		return res
	}

	if verdict != sim.VOK {
		return res
	}

	for i, j := range jobs {
		if j.err != nil {
			continue
		}

		got, _ := v.ReadFile(j.dst)
		want := sha256.Sum256(j.content)

		if !bytes.Equal(got, j.content) || !bytes.Equal(j.sum, want[:]) {
			tr["decisions"] = sim.Ints(s.Decisions)
			res.Violation = &sim.Violation{
				Prop: "C16", Class: "wrong-content", Sig: "concurrent CopyFileHash calls corrupt each other",
				Msg: fmt.Sprintf("copy %d of %d concurrent copies returned nil but destination or digest is wrong (first difference at %d)", i, n, firstDiff(got, j.content)),
			}

			return res
		}
	}

	return res
}

func fsErr(err error) string {
	if err == nil {
		return "ok"
	}

	return err.Error()
}
