package props

import (
	"fmt"
	"regexp"
	"sort"
	"strings"

	"github.com/avfs/avfs"
	"github.com/avfs/avfs/vfs/basepathfs"
	"github.com/avfs/avfs/vfs/failfs"
	"github.com/avfs/avfs/vfs/rofs"

	"verif/fsx"
	"verif/sim"
)

// C07 — every call returns: no deadlock, hang or panic.
type C07 struct{}

func (C07) ID() string { return "C07" }

func (C07) Describe() sim.Description {
	return sim.Description{
		Level: "exploration",
		Rule: "one case = either (a) a seeded sequential history of 3-25 calls with operands from an adversarial domain (root, ancestor/descendant, " +
			"identical operands, empty and relative paths, '..' chains, negative and large sizes/offsets, nil/closed/directory handles) on one of " +
			"MemFS, OrefaFS, RoFS, BasePathFS, FailFS (over both bases), each call executed on a simulated client so that a self-deadlock, a busy loop or a " +
			"panic is a scheduler verdict, or (b) a 2-4 client concurrent program on a shared MemFS (per-client Sub views) or OrefaFS whose interleaving at " +
			"lock-acquisition granularity is drawn from the tape; verdict deadlock = some client live and none runnable, hang = step budget / no event, " +
			"panic = recovered. non-trivial = at least two calls that changed the tree (concurrent: plus one decision point with several runnable clients); " +
			"distinct by hash of configuration + calls + decisions",
		Explanation: "deterministic simulation with argument faults; the only sanctioned panic (File.Name on a nil handle) is not generated",
		Assumptions: []string{
			"scheduler model of sync.RWMutex trusted (cross-checked by TryLock on each grant)",
			"sizes and offsets are bounded by 1 MiB: an in-memory file system legitimately allocates what it is asked to hold",
		},
		RealCode: []string{"vfs/memfs", "vfs/orefafs", "vfs/rofs", "vfs/basepathfs", "vfs/failfs", "idm/memidm", "vfs.go helpers"},
		Stubs:    []string{"blocking of sync.RWMutex modelled by the scheduler", "temp-name random part (hook H2) in concurrent runs"},
	}
}

var digitsRE = regexp.MustCompile(`[0-9]+`) //nolint:gochecknoglobals // normaliser.

func normPanic(s string) string {
	if i := strings.IndexByte(s, '\n'); i >= 0 {
		s = s[:i]
	}

	s = digitsRE.ReplaceAllString(s, "N")
	if len(s) > 100 {
		s = s[:100]
	}

	return s
}

var advPaths = []string{ //nolint:gochecknoglobals // adversarial path domain.
	"/", "", ".", "..", "/a", "/a/d", "/a/f", "/a/d/h", "/a/x", "/b", "/b/g", "/a/d/..", "/a/../..", "a", "a/f", "../a", "/a/f/x", "/a/d/x/y",
	"//a//f", "/a/", "/nonexistent/x", "x", "/tmp", "/a/l", "/a/lb/g", "/b/k", "/a/./d", "/..", "/a/d/../../b",
}

// advWinPaths: what a Windows-typed instance is additionally asked about (other volumes, UNC names, mixed separators).
var advWinPaths = []string{ //nolint:gochecknoglobals // adversarial path domain.
	`C:\`, `C:\a`, `C:\a\f`, `C:\a\d\x`, `D:\`, `D:\a\b`, `D:`, `C:`, `C:a`, `\\host\share\x`, `\\host`, `\a\f`, `C:/a/f`, `C:\a\..\..\b`,
	`c:\a\F`, `C:\a\f\`, `C:\nonexistent\x\y`, `Z:\x\y\z`, `\`,
}

func advOp(t *sim.Tape, fsKind string, uniq string) fsx.Op {
	kinds := []string{
		"Mkdir", "MkdirAll", "Remove", "RemoveAll", "Rename", "Link", "Symlink", "OpenFile", "Create", "Open", "WriteFile", "ReadFile", "ReadDir",
		"Truncate", "Chmod", "Chown", "Lchown", "Chtimes", "Chdir", "Getwd", "Stat", "Lstat", "Readlink", "EvalSymlinks", "Abs", "Glob", "WalkDir",
		"CreateTemp", "MkdirTemp", "Exists", "IsEmpty", "FRead", "FReadAt", "FWrite", "FWriteAt", "FWriteString", "FSeek", "FTruncate", "FStat", "FSync",
		"FChmod", "FChown", "FChdir", "FClose", "FReadDir", "FReaddirnames", "SetUMask", "Sub", "TempDir",
	}
	o := fsx.Op{K: kinds[t.Int(len(kinds))]}
	p := func() string {
		if strings.HasSuffix(fsKind, "-win") && t.Chance(500) {
			return advWinPaths[t.Int(len(advWinPaths))]
		}

		return advPaths[t.Int(len(advPaths))]
	}
	size := func() int64 {
		return []int64{0, 1, 3, 4, 5, -1, -5, 100, 1 << 20, 70000, 1<<20 + 1}[t.Int(11)]
	}

	switch o.K {
	case "Rename", "Link":
		o.P, o.Q = p(), p()
	case "Symlink":
		o.P, o.Q = []string{"f", "/b", "", "..", "/a/l", "l2"}[t.Int(6)], p()
	case "OpenFile":
		o.P = p()
		o.Flag = genFlags(t)
		o.Perm = []uint32{0o644, 0, 0o7777, 0o200}[t.Int(4)]
		o.H = t.Int(3)
	case "Create", "Open":
		o.P = p()
		o.H = t.Int(3)
	case "WriteFile":
		o.P = p()
		o.Data = uniq
		o.Perm = 0o644
	case "Truncate":
		o.P = p()
		o.Size = size()
	case "Mkdir", "MkdirAll", "Chmod":
		o.P = p()
		o.Perm = []uint32{0o755, 0, 0o7777, 0o111}[t.Int(4)]
	case "Chown", "Lchown":
		o.P = p()
		o.Uid, o.Gid = []int{0, -1, 1000, 65534}[t.Int(4)], []int{0, -1, 1000}[t.Int(3)]
	case "Chtimes":
		o.P = p()
		o.Size = []int64{0, 1, 1700000000, -1, fsx.ZeroTime}[t.Int(5)]
	case "Glob":
		o.P = []string{"/a/*", "*", "[", "/a/[", "/*/*", "\\", "/a/?", "", "/a/d/../*", "a/*"}[t.Int(10)]
	case "WalkDir":
		o.P = p()
		o.Skip = t.Int(4)
		o.Act = t.Int(4)
	case "CreateTemp", "MkdirTemp":
		o.P = []string{"", "/a", "/tmp", "/nonexistent", "/a/f", "a"}[t.Int(6)]
		o.Q = []string{"t*", "*", "", "a/b", "x*y*z"}[t.Int(5)]
		o.H = t.Int(3)
	case "FRead", "FReadDir", "FReaddirnames":
		o.H = t.Int(4)
		o.N = []int{0, 1, 2, -1, 8, 100}[t.Int(6)]
	case "FReadAt":
		o.H = t.Int(4)
		o.N = []int{0, 1, 8}[t.Int(3)]
		o.Size = size()
	case "FWrite", "FWriteString":
		o.H = t.Int(4)
		o.Data = []string{uniq, "", "z"}[t.Int(3)]
	case "FWriteAt":
		o.H = t.Int(4)
		o.Data = []string{uniq, "", "z"}[t.Int(3)]
		o.Size = size()
	case "FSeek":
		o.H = t.Int(4)
		o.Size = size()
		o.N = []int{0, 1, 2, 3, -1}[t.Int(5)]
	case "FTruncate":
		o.H = t.Int(4)
		o.Size = size()
	case "FChmod":
		o.H = t.Int(4)
		o.Perm = 0o600
	case "FChown":
		o.H = t.Int(4)
		o.Uid, o.Gid = -1, 1000
	case "FStat", "FSync", "FChdir", "FClose":
		o.H = t.Int(4)
	case "SetUMask":
		o.Perm = []uint32{0, 0o22, 0o777, 0o77}[t.Int(4)]
	default:
		o.P = p()
	}

	_ = fsKind

	return o
}

func wrapFS(kind string, w *world) avfs.VFS {
	switch {
	case strings.HasPrefix(kind, "rofs/"):
		return rofs.New(w.fs)
	case strings.HasPrefix(kind, "basepath/"):
		if v, err := basepathfs.NewWithErr(w.fs, "/a"); err == nil {
			return v
		}

		return w.fs
	case strings.HasPrefix(kind, "failfs/"):
		return failfs.New(w.fs)
	}

	return w.fs
}

type seqTrace struct {
	FS       string   `json:"fs"`
	Calls    []string `json:"calls"`
	Outcomes []string `json:"outcomes"`
	Verdict  string   `json:"verdict,omitempty"`
}

func (p C07) Run(c *sim.Ctx, t *sim.Tape) sim.RunResult {
	if t.Chance(500) {
		return p.runConc(c, t)
	}

	if t.Chance(150) {
		// the identity manager under the same scheduler.
		return C15{AsC07: true}.Run(c, t)
	}

	kinds := []string{
		"memfs", "orefafs", "rofs/memfs", "rofs/orefafs", "basepath/memfs", "basepath/orefafs", "failfs/memfs", "failfs/orefafs", "memfs", "orefafs",
	}
	kind := kinds[t.Int(len(kinds))]
	base := "memfs"

	if strings.HasSuffix(kind, "orefafs") {
		base = "orefafs"
	}

	cfg := &concCfg{FS: base, HardLink: t.Chance(500), Symlinks: base == "memfs" && t.Chance(500)}

	if avfs.BuildFeatures()&avfs.FeatSetOSType != 0 && t.Chance(250) {
		// an instance that emulates Windows (the check is built with avfs_setostype): every call returns there too.
		cfg.Windows = true
		kind += "-win"
	}
	w := buildWorld(cfg, 1)

	if cfg.Windows && w.mem != nil && t.Chance(500) {
		_ = w.mem.VolumeAdd("D:") // a second drive: its root is a root too
	}

	env := &fsx.Env{VFS: wrapFS(kind, w)}
	tr := seqTrace{FS: kind}
	res := sim.RunResult{}
	okMut := 0

	// a third of the histories stay with one directory and one handle on it: listing it in batches by both
	// methods while its entries come and go.
	dirFocus := t.Chance(330)
	focusDir := []string{"/a", "/a/d", "/b"}[t.Int(3)]

	for i := 0; i < 25 && (i < 3 || t.Chance(880)); i++ {
		o := advOp(t, kind, fmt.Sprintf("<%d>", i))

		if dirFocus {
			switch {
			case i == 0:
				o = fsx.Op{K: "Open", P: focusDir, H: 0}
			default:
				entry := focusDir + "/" + []string{"f", "d", "x", "y", "g", "k", "h"}[t.Int(7)]

				switch t.Int(10) {
				case 0, 1, 2:
					o = fsx.Op{K: "FReadDir", H: 0, N: []int{1, 2, -1, 0, 100}[t.Int(5)]}
				case 3, 4, 5:
					o = fsx.Op{K: "FReaddirnames", H: 0, N: []int{1, 2, -1, 0, 100}[t.Int(5)]}
				case 6:
					o = fsx.Op{K: "Remove", P: entry}
				case 7:
					o = fsx.Op{K: "WriteFile", P: entry, Data: "z", Perm: 0o644}
				case 8:
					o = fsx.Op{K: []string{"RemoveAll", "Mkdir", "Rename"}[t.Int(3)], P: entry, Q: focusDir + "/r", Perm: 0o755}
				default:
					o = fsx.Op{K: []string{"FStat", "FSeek", "Open", "FClose"}[t.Int(4)], P: focusDir, H: 0}
				}
			}
		}

		var out string

		op := o
		run := func() string {
			if op.K == "Sub" {
				sub, err := env.VFS.Sub(op.P)
				if err == nil && sub != nil {
					_, _ = sub.Stat("/")
				}

				return fsx.ErrClass(err)
			}

			return env.Exec(op).String()
		}

		out, v, msg := sim.Call1(run)
		res.Steps++
		tr.Calls = append(tr.Calls, o.String())
		tr.Outcomes = append(tr.Outcomes, out)

		if strings.HasPrefix(out, "ok") && isMutator(o.K) {
			okMut++
		}

		if v == sim.VOK {
			continue
		}

		tr.Verdict = v.String() + ": " + msg
		res.Trace = tr

		if v == sim.VHarness {
			res.Harness = msg

			return res
		}

		cls := v.String()
		sig := kind + " " + cls + " " + o.String()

		if v == sim.VPanic {
			sig = kind + " panic " + o.K + ": " + normPanic(strings.TrimPrefix(out, "panic:"))
		}

		if v == sim.VHang && strings.Contains(msg, "busy loop") {
			cls = "hang-busy"
		}

		res.Violation = &sim.Violation{Prop: "C07", Class: cls, Sig: sig, Msg: fmt.Sprintf("call %d %s on %s: %s %s", i, o, kind, v, msg)}

		return res
	}

	sim.Deactivate()

	res.Trace = tr
	res.TraceHash = sim.HashString(fmt.Sprint(tr.FS, tr.Calls))
	res.Nontrivial = okMut >= 2
	c.Count("sequential_runs", 1)
	c.Count("seq_calls", int64(len(tr.Calls)))

	return res
}

func (p C07) runConc(c *sim.Ctx, t *sim.Tape) sim.RunResult {
	cfg := genConc(t, []string{"memfs", "orefafs"}, 2+2*deeper(c, t), 2+deeper(c, t), t.Chance(500))
	r := runConc(t, cfg)

	defer r.S.Free()

	res := sim.RunResult{Steps: r.S.Steps, Trace: r.Trace, TraceHash: r.hash()}
	res.Nontrivial = r.OkMut >= 2 && r.S.DecPoints > 0
	res.OrderSensitive = r.S.BatchBlocks > 0
	c.Count("concurrent_runs", 1)
	c.Count("decision_points", int64(r.S.DecPoints))
	c.Count("blocked_observed", int64(r.S.BlockedSeen))
	c.Count("h3_region_blocked", int64(r.S.BatchBlocks))
	c.Count("temp_name_hook_calls", int64(r.S.TempCalls))

	switch r.Verdict {
	case sim.VOK:
		return res
	case sim.VHarness:
		res.Harness = r.Msg

		return res
	}

	res.Violation = concVerdictViolation("C07", cfg, r)

	return res
}

// concVerdictViolation turns a deadlock/hang/panic verdict of a concurrent run into a violation
// whose signature names the calls involved (sorted, with their operands).
func concVerdictViolation(prop string, cfg *concCfg, r *concRun) *sim.Violation {
	var involved []string

	for ci := range cfg.Progs {
		if j := r.S.InFlight(ci); j >= 0 {
			involved = append(involved, cfg.Progs[ci][j].String())
		}
	}

	sort.Strings(involved)

	cls := r.Verdict.String()
	sig := cfg.FS + " " + cls + " " + strings.Join(involved, " || ")

	if r.Verdict == sim.VPanic {
		sig = cfg.FS + " panic: " + normPanic(r.Msg[strings.Index(r.Msg, "panic:")+6:]) + " in " + strings.Join(involved, " || ")
	}

	if r.Verdict == sim.VHang && strings.Contains(r.Msg, "busy loop") {
		cls = "hang-busy"
	}

	return &sim.Violation{Prop: prop, Class: cls, Sig: sig, Msg: r.Verdict.String() + ": " + r.Msg}
}
