package props

import (
	"fmt"
	"io/fs"
	"strconv"
	"strings"

	"github.com/avfs/avfs"
	"github.com/avfs/avfs/vfs/basepathfs"
	"github.com/avfs/avfs/vfs/failfs"
	"github.com/avfs/avfs/vfs/rofs"

	"verif/fsx"
	"verif/sim"
)

// C14 — Glob, WalkDir and ReadDir enumerate exactly what exists.
type C14 struct{}

func (C14) ID() string { return "C14" }

func (C14) Describe() sim.Description {
	return sim.Description{
		Level: "exploration",
		Rule: "one case = a MemFS or OrefaFS tree of depth up to 4 built by a seeded history (names that prefix each other, names made of pattern characters '[a]', 'a*', 'a?', upper/lower " +
			"case, '.', '-'; on MemFS symbolic links to directories, files, nowhere and themselves, and directories made unreadable or unsearchable - modes 000, 0400, 0100, 0300, 0500 - for the " +
			"non-administrator who issues half of the queries), then 10-30 queries interleaved with Remove/Rename/Mkdir/WriteFile/Chmod mutations: Glob of patterns derived from the tree's own " +
			"paths (every segment possibly replaced by *, ?, a prefix or suffix star, a class, a negated class, a range, an escape, a malformed term; trailing and doubled separators; relative " +
			"to the current directory), WalkDir from every kind of root with a callback that returns SkipDir, SkipAll or an error at EVERY visit index of small walks (drawn indices for walks " +
			"of more than 14 visits) or returns the reported error / SkipDir / SkipAll on the visits that report an unreadable directory, ReadDir, and Exists/DirExists/IsDir/IsEmpty. " +
			"Every query runs in lockstep in the chrooted helper (filepath.Glob, filepath.WalkDir, os.ReadDir under the same uid): same matches in the same order, same visit sequence with " +
			"types and reported errors, same entries and types, same final error class. The four helpers are compared with what Stat and ReadDir of the same instance imply. Each query is " +
			"repeated through RoFS, FailFS (no failure installed) and a BasePathFS rooted at an ancestor of the query path: same answer, paths translated. " +
			"non-trivial = at least 6 queries with a non-empty answer, among them a Glob with matches and a walk of 3 visits or more; distinct by hash of the calls",
		Explanation: "deterministic lockstep simulation against the standard library on the real kernel; the fault dimension is the callback's interference at every visit index and directories " +
			"that cannot be read or searched by the caller",
		Assumptions: []string{
			"FailFS.WalkDir hands the walk to the wrapped file system: failures cannot be injected below the root of a walk through FailFS, unreadable directories come from permissions",
			"which strings match which names is a pure function (C13, not applicable); patterns here are only derived from names of the tree",
		},
		RealCode: []string{"vfs.go (Glob, glob, WalkDir, walkDir, ReadDir)", "vfs_aferoutils.go", "vfs/memfs, vfs/orefafs (directory listing)", "vfs/basepathfs, vfs/rofs, vfs/failfs (Glob, WalkDir, ReadDir)", "path/filepath + os on tmpfs (reference)"},
		Stubs:    []string{"none"},
	}
}

var c14Names = []string{"a", "ab", "abc", "b", "a.b", "a-b", "B", "[a]", "a*", "a?", "d"} //nolint:gochecknoglobals // name universe.

// patternShape abstracts a pattern for signatures: letters become x.
func patternShape(p string) string {
	var b strings.Builder

	prev := byte(0)

	for i := 0; i < len(p); i++ {
		ch := p[i]
		if (ch >= 'a' && ch <= 'z') || (ch >= 'A' && ch <= 'Z') || (ch >= '0' && ch <= '9') {
			ch = 'x'
		}

		if ch == 'x' && prev == 'x' {
			continue
		}

		b.WriteByte(ch)
		prev = ch
	}

	return b.String()
}

func (p C14) Run(c *sim.Ctx, t *sim.Tape) sim.RunResult {
	kind := []string{"memfs", "memfs", "orefafs"}[t.Int(3)]

	w, err := newE1World(c, kind, 0o022)
	if err != nil {
		return sim.RunResult{Harness: err.Error()}
	}

	filtered := !t.Chance(100)
	tr := seqTrace{FS: kind + " enumeration profile"}
	res := sim.RunResult{}
	answers, globHits, bigWalks := 0, 0, 0

	var user *c03User

	defer func() {
		w.env.CloseAll()

		if user != nil {
			user.env.CloseAll()
		}

		sim.Deactivate()
	}()

	admin := &c03User{uid: 0, gid: 0, umask: 0o022, env: w.env}

	if kind == "memfs" {
		_, _ = w.idm.AddGroup("g1")

		u, err := w.idm.AddUser("u1", "g1")
		if err != nil {
			return sim.RunResult{Harness: "cannot create the user"}
		}

		sub, err := w.mem.Sub("/")
		if err != nil {
			return sim.RunResult{Harness: "Sub: " + err.Error()}
		}

		_ = sub.SetUser(u)
		_ = sub.SetUMask(avfsMode(0o022))
		user = &c03User{uid: u.Uid(), gid: u.Gid(), umask: 0o022, env: &fsx.Env{VFS: sub}}
		w.views[u.Uid()] = user.env
	}

	i := 0

	// replaced: the call was swapped for a harmless query by the filter of recorded findings (nothing to repeat through wrappers).
	replaced := map[int]bool{}

	do := func(who *c03User, o fsx.Op) (out e1Outcome, stop bool) {
		if filtered && w.avoided(c, "C14", o) {
			o = insteadOf(o)
			replaced[i] = true
		}

		out = w.step(c, "C14", i, o, who.env, who.uid, who.gid, who.umask)
		i++
		res.Steps++
		tr.Calls = append(tr.Calls, fmt.Sprintf("uid%d: %s", who.uid, o))
		tr.Outcomes = append(tr.Outcomes, out.a.String())

		if out.harness != "" {
			res.Harness = out.harness

			return out, true
		}

		if out.cut {
			return out, true
		}

		if out.violation != nil {
			tr.Verdict = out.violation.Msg
			res.Trace = tr
			res.Violation = out.violation

			return out, true
		}

		return out, false
	}

	fail := func(class, sig, msg string) {
		tr.Verdict = msg
		res.Trace = tr
		res.Violation = &sim.Violation{Prop: "C14", Class: class, Sig: sig, Msg: msg}
	}

	// ---- tree
	dirs := []string{"/a", "/ab", "/d"}
	files := []string{}
	links := []string{}

	for _, d := range dirs {
		if _, stop := do(admin, fsx.Op{K: "Mkdir", P: d, Perm: 0o755}); stop {
			return res
		}
	}

	name := func() string { return c14Names[t.Int(len(c14Names))] }
	anyDir := func() string { return dirs[t.Int(len(dirs))] }
	depth := func(p string) int { return strings.Count(p, "/") }
	nn := t.Range(4, 16)

	for j := 0; j < nn; j++ {
		parent := anyDir()
		np := parent + "/" + name()

		var o fsx.Op

		switch k := t.Weighted([]int{40, 40, 20}); {
		case k == 0 && depth(np) <= 4:
			o = fsx.Op{K: "Mkdir", P: np, Perm: 0o755}
		case k == 2 && kind == "memfs":
			tgt := []string{name(), "../" + name(), anyDir(), "nowhere", np[strings.LastIndexByte(np, '/')+1:], "/a", "."}[t.Int(7)]
			o = fsx.Op{K: "Symlink", P: tgt, Q: np}
		default:
			o = fsx.Op{K: "WriteFile", P: np, Data: []string{"", "x"}[t.Int(2)], Perm: 0o644}
		}

		out, stop := do(admin, o)
		if stop {
			return res
		}

		if out.a.Err == "ok" {
			switch o.K {
			case "Mkdir":
				dirs = append(dirs, np)
			case "Symlink":
				links = append(links, np)
			default:
				files = append(files, np)
			}
		}
	}

	if kind == "memfs" {
		// some directories the user cannot read or search.
		for j := t.Int(4); j > 0; j-- {
			m := []uint32{0o000, 0o400, 0o100, 0o300, 0o500, 0o700, 0o711, 0o744}[t.Int(8)]

			d := anyDir()
			if t.Chance(300) {
				if _, stop := do(admin, fsx.Op{K: "Chown", P: d, Uid: user.uid, Gid: user.gid}); stop {
					return res
				}
			}

			if _, stop := do(admin, fsx.Op{K: "Chmod", P: d, Perm: m}); stop {
				return res
			}

			c.Count("directories_with_restricted_mode", 1)
		}

		// and some files he can see but not read.
		for j := t.Int(3); j > 0 && len(files) > 0; j-- {
			f := files[t.Int(len(files))]
			m := []uint32{0o000, 0o200, 0o600, 0o640, 0o444}[t.Int(5)]

			if t.Chance(400) {
				if _, stop := do(admin, fsx.Op{K: "Chown", P: f, Uid: user.uid, Gid: user.gid}); stop {
					return res
				}
			}

			if _, stop := do(admin, fsx.Op{K: "Chmod", P: f, Perm: m}); stop {
				return res
			}

			c.Count("files_with_restricted_mode", 1)
		}
	}

	existing := func() string {
		all := append(append(append([]string{}, dirs...), files...), links...)

		return all[t.Int(len(all))]
	}

	anyPath := func() string {
		switch t.Weighted([]int{60, 15, 10, 10, 5}) {
		case 0:
			return existing()
		case 1:
			return anyDir() + "/" + name()
		case 2:
			if len(files) > 0 {
				return files[t.Int(len(files))] + "/" + name()
			}
		case 3:
			if len(links) > 0 {
				return links[t.Int(len(links))] + "/" + name()
			}
		case 4:
			return "/"
		}

		return anyDir()
	}

	quote := func(seg string) string {
		var b strings.Builder

		for k := 0; k < len(seg); k++ {
			if strings.IndexByte(`*?[\`, seg[k]) >= 0 {
				b.WriteByte('\\')
			}

			b.WriteByte(seg[k])
		}

		return b.String()
	}

	pattern := func(who *c03User) string {
		base := anyPath()
		if base == "/" {
			base = "/" + name()
		}

		segs := strings.Split(base[1:], "/")
		if t.Chance(300) {
			segs = append(segs, name())
		}

		metas := 0

		for k, s := range segs {
			if !t.Chance(450) {
				segs[k] = quote(s)

				if t.Chance(50) {
					segs[k] = s // unescaped: a name made of pattern characters is then a pattern
				}

				continue
			}

			metas++

			switch t.Int(14) {
			case 0, 1, 2:
				segs[k] = "*"
			case 3:
				segs[k] = "?"
			case 4:
				segs[k] = quote(s[:1]) + "*"
			case 5:
				segs[k] = "*" + quote(s[len(s)-1:])
			case 6:
				segs[k] = "[" + s[:1] + "]" + quote(s[1:])
			case 7:
				segs[k] = "[a-b]" + quote(s[1:])
			case 8:
				segs[k] = "[^a]" + quote(s[1:])
			case 9:
				segs[k] = quote(s[:1]) + "?" + "*"
			case 10:
				segs[k] = strings.Repeat("?", len(s))
			case 11:
				segs[k] = []string{"[", "a[", "[]", "[a-]", "\\", "[^]", "*["}[t.Int(7)] // malformed
			case 12:
				segs[k] = "\\" + s
			case 13:
				segs[k] = "*" + quote(s) + "*"
			}
		}

		pat := "/" + strings.Join(segs, "/")

		switch t.Weighted([]int{80, 7, 7, 6}) {
		case 1:
			pat += "/"
		case 2:
			pat = strings.Replace(pat, "/", "//", 1+t.Int(2))
		case 3:
			if who == admin && w.cwd != "/" && strings.HasPrefix(pat, w.cwd+"/") {
				pat = strings.TrimPrefix(pat, w.cwd+"/")
			} else if who == admin && w.cwd == "/" {
				pat = pat[1:]
			}
		}

		if metas > 0 {
			c.Count("glob_patterns_with_meta", 1)
		}

		return pat
	}

	// wrappers: the same query through RoFS, FailFS and BasePathFS must give the same answer.
	throughWrappers := func(who *c03User, o fsx.Op, direct fsx.Result) bool {
		if replaced[i-1] {
			return false // direct is the answer of another call
		}

		type wrapped struct {
			name string
			env  *fsx.Env
			op   fsx.Op
			base string
		}

		var ws []wrapped

		ws = append(ws, wrapped{name: "RoFS", env: &fsx.Env{VFS: rofs.New(who.env.VFS)}, op: o})
		ws = append(ws, wrapped{name: "FailFS", env: &fsx.Env{VFS: failfs.New(who.env.VFS)}, op: o})

		if strings.HasPrefix(o.P, "/") && cleanAbs(o.P) == strings.TrimSuffix(o.P, "/") && o.P != "/" && !strings.Contains(o.P, "//") {
			// a BasePathFS rooted at a directory that is a lexical ancestor of the query.
			var cands []string

			for _, d := range dirs {
				if strings.HasPrefix(o.P, d+"/") && !strings.ContainsAny(d, `*?[\`) {
					cands = append(cands, d)
				}
			}

			if len(cands) > 0 {
				base := cands[t.Int(len(cands))]
				if bp, err := basepathfs.NewWithErr(who.env.VFS, base); err == nil {
					bo := o
					bo.P = strings.TrimPrefix(o.P, base)
					ws = append(ws, wrapped{name: "BasePathFS", env: &fsx.Env{VFS: bp}, op: bo, base: base})
				}
			}
		}

		for _, x := range ws {
			var got fsx.Result

			xx := x
			_, v, msg := sim.Call1(func() string {
				got = xx.env.Exec(xx.op)

				return got.String()
			})

			if v != sim.VOK {
				fail("wrapper-"+v.String(), fmt.Sprintf("%s|%s|%s", kind, x.name, o.K), fmt.Sprintf("%s through %s: %s %s", o, x.name, v, msg))

				return true
			}

			want := direct
			if x.base != "" {
				want.Data = rebase(o.K, direct.Data, x.base)
			}

			if strings.HasPrefix(got.Err, "other:") && strings.HasPrefix(want.Err, "other:") {
				// the text of the error quotes the path as it was given.
				got.Err, want.Err = "other", "other"
			}

			c.Count("queries_through_"+x.name, 1)

			if got.Err != want.Err || got.Data != want.Data {
				fail("wrapper-differs", fmt.Sprintf("%s|%s|%s => differs from the wrapped file system", kind, x.name, o.K),
					fmt.Sprintf("%s by uid %d: directly %q, through %s (op %s) %q", o, who.uid, want, x.name, x.op, got))

				return true
			}
		}

		return false
	}

	// ---- queries
	nq := t.Range(10, 30) * deeper(c, t)
	if user != nil {
		// the administrator stands in the directory where relative patterns are resolved.
		if t.Chance(300) {
			if _, stop := do(admin, fsx.Op{K: "Chdir", P: anyDir()}); stop {
				return res
			}
		}
	}

	for q := 0; q < nq; q++ {
		who := admin
		if user != nil && t.Chance(500) {
			who = user
		}

		switch t.Weighted([]int{35, 25, 12, 16, 12}) {
		case 0: // Glob
			o := fsx.Op{K: "Glob", P: pattern(who)}

			out, stop := do(who, o)
			if stop {
				return res
			}

			if out.a.Data != "nil" && out.a.Err == "ok" {
				answers++
				globHits++
			}

			if out.a.Err != "ok" {
				c.Count("glob_bad_pattern", 1)
			}

			if throughWrappers(who, o, out.a) {
				return res
			}
		case 1: // WalkDir
			root := anyPath()
			if t.Chance(60) {
				root += "/"
			}

			if who == admin && t.Chance(50) {
				root = "."
			}

			plain := fsx.Op{K: "WalkDir", P: root}

			out, stop := do(who, plain)
			if stop {
				return res
			}

			if throughWrappers(who, plain, out.a) {
				return res
			}

			visits := 0
			if out.a.Data != "" {
				visits = strings.Count(out.a.Data, ",") + 1
			}

			if visits >= 3 {
				bigWalks++
				answers++
			}

			if strings.Contains(out.a.Data, "!") {
				c.Count("walks_reporting_an_unreadable_directory", 1)

				act := 4 + t.Int(3)
				if _, stop := do(who, fsx.Op{K: "WalkDir", P: root, Act: act}); stop {
					return res
				}
			}

			act := 1 + t.Int(3)

			var idx []int

			if visits <= 14 {
				for k := 1; k <= visits; k++ {
					idx = append(idx, k)
				}

				c.Count("walks_with_every_visit_index", 1)
			} else {
				for k := 0; k < 4; k++ {
					idx = append(idx, 1+t.Int(visits))
				}
			}

			for _, k := range idx {
				o := fsx.Op{K: "WalkDir", P: root, Act: act, Skip: k}

				out, stop := do(who, o)
				if stop {
					return res
				}

				c.Count([]string{"", "walk_skipdir", "walk_skipall", "walk_error"}[act], 1)

				if k == idx[len(idx)-1] && throughWrappers(who, o, out.a) {
					return res
				}
			}
		case 2: // ReadDir
			o := fsx.Op{K: "ReadDir", P: anyPath()}

			out, stop := do(who, o)
			if stop {
				return res
			}

			if out.a.Err == "ok" && out.a.Data != "" {
				answers++
			}

			if throughWrappers(who, o, out.a) {
				return res
			}
		case 3: // helpers
			o := fsx.Op{K: []string{"Exists", "DirExists", "IsDir", "IsEmpty"}[t.Int(4)], P: anyPath()}

			out, stop := do(who, o)
			if stop {
				return res
			}

			want := impliedByStat(who.env.VFS, o)
			if want.Err != out.a.Err && !(want.Err == "error" && out.a.Err != "ok") || want.Data != out.a.Data {
				fail("helper-differs", fmt.Sprintf("%s|%s => not what Stat and ReadDir imply", kind, o.K),
					fmt.Sprintf("%s by uid %d answers %q, Stat and ReadDir of the same path imply %q", o, who.uid, out.a, want))

				return res
			}

			if out.a.Data == "true" {
				answers++
			}

			if throughWrappers(who, o, out.a) {
				return res
			}
		case 4: // the tree changes
			var o fsx.Op

			switch t.Int(6) {
			case 0:
				o = fsx.Op{K: "Remove", P: existing()}
			case 1:
				o = fsx.Op{K: "Rename", P: existing(), Q: anyDir() + "/" + name()}
			case 2:
				o = fsx.Op{K: "Mkdir", P: anyDir() + "/" + name(), Perm: 0o755}
			case 3:
				o = fsx.Op{K: "WriteFile", P: anyDir() + "/" + name(), Data: "y", Perm: 0o644}
			case 4:
				o = fsx.Op{K: "Chmod", P: anyDir(), Perm: []uint32{0o000, 0o400, 0o100, 0o755, 0o500}[t.Int(5)]}
			default:
				o = fsx.Op{K: "RemoveAll", P: existing()}
			}

			if o.P == "/a" || o.P == "/ab" || o.P == "/d" {
				if o.K != "Chmod" {
					o = insteadOf(o)
				}
			}

			// the tree also changes at the hands of the user, whose RemoveAll may stop half-way in a directory he may not empty.
			by := admin
			if user != nil && t.Chance(400) {
				by = user
			}

			if _, stop := do(by, o); stop {
				return res
			}

			// what exists now.
			dirs, files, links = dirs[:0], files[:0], links[:0]

			for k := range w.snap.Nodes {
				n := &w.snap.Nodes[k]
				if n.Path == "/" || !(strings.HasPrefix(n.Path, "/a") || strings.HasPrefix(n.Path, "/d")) {
					continue
				}

				switch n.Type {
				case 'd':
					dirs = append(dirs, n.Path)
				case 'l':
					links = append(links, n.Path)
				default:
					files = append(files, n.Path)
				}
			}

			c.Count("tree_mutations_between_queries", 1)
		}
	}

	res.Trace = tr
	res.TraceHash = sim.HashString(fmt.Sprint(tr.Calls))
	res.Nontrivial = answers >= 6 && globHits >= 1 && bigWalks >= 1
	c.Count("queries_with_non_empty_answer", int64(answers))

	return res
}

// impliedByStat computes the answer of a helper from Stat and ReadDir of the same instance.
func impliedByStat(v avfs.VFS, o fsx.Op) fsx.Result {
	var (
		info fs.FileInfo
		serr error
	)

	_, _, _ = sim.Call1(func() string {
		info, serr = v.Stat(o.P)

		return ""
	})

	notExist := serr != nil && (fsx.ErrClass(serr) == "ENOENT")
	r := func(b bool, err error) fsx.Result {
		return fsx.Result{Err: fsx.ErrClass(err), Data: strconv.FormatBool(b)}
	}

	switch o.K {
	case "Exists":
		if serr == nil {
			return r(true, nil)
		}

		if notExist {
			return r(false, nil)
		}

		return r(false, serr)
	case "DirExists":
		if serr == nil {
			return r(info.IsDir(), nil)
		}

		if notExist {
			return r(false, nil)
		}

		return r(false, serr)
	case "IsDir":
		if serr != nil {
			return r(false, serr)
		}

		return r(info.IsDir(), nil)
	}

	// IsEmpty
	if serr != nil {
		if notExist {
			return fsx.Result{Err: "error", Data: "false"}
		}

		return fsx.Result{Err: "error", Data: "false"}
	}

	if !info.IsDir() {
		return r(info.Size() == 0, nil)
	}

	var (
		ents []fs.DirEntry
		rerr error
	)

	_, _, _ = sim.Call1(func() string {
		ents, rerr = v.ReadDir(o.P)

		return ""
	})

	if rerr != nil {
		return r(false, rerr)
	}

	return r(len(ents) == 0, nil)
}

// rebase translates the answer of a query made below base into the answer expected from a BasePathFS rooted there.
func rebase(kind, data, base string) string {
	strip := func(p string) string {
		rest := strings.TrimPrefix(p, base)
		if rest == "" {
			return "/"
		}

		return rest
	}

	switch kind {
	case "Glob":
		if data == "nil" || data == "" {
			return data
		}

		parts := strings.Split(data, ",")
		for i := range parts {
			parts[i] = strip(parts[i])
		}

		return strings.Join(parts, ",")
	case "WalkDir":
		if data == "" {
			return data
		}

		parts := strings.Split(data, ",")
		for i := range parts {
			parts[i] = strip(parts[i])
		}

		return strings.Join(parts, ",")
	}

	return data
}
