package props

import (
	"fmt"
	"os"
	"regexp"
	"strings"

	"github.com/avfs/avfs"
	"github.com/avfs/avfs/idm/memidm"
	"github.com/avfs/avfs/vfs/memfs"
	"github.com/avfs/avfs/vfs/orefafs"

	"verif/fsx"
	"verif/sim"
)

// E1: lockstep simulation of an emulated file system against the real kernel (helper process).

type e1World struct {
	kind  string
	fs    avfs.VFS
	mem   *memfs.MemFS
	idm   *memidm.MemIdm
	env   *fsx.Env // administrator's view
	k     *kernel
	snap  *fsx.Snap // last observation of the emulated tree (equal to the kernel's while in step)
	umask uint32
	cwd   string
	norm  func(o fsx.Op, a, k *fsx.Result) // property-specific normalisation before the comparison
	sugid bool                             // a setuid or setgid bit has been set in this run (semantics the library does not emulate)
	users map[int]avfs.UserReader
	views map[int]*fsx.Env // per uid views (C03)
}

var e1Names = []string{"a", "ab", "b", "d"} //nolint:gochecknoglobals // name universe.

func newE1World(c *sim.Ctx, kind string, umask uint32) (*e1World, error) {
	k, err := getKernel(c)
	if err != nil {
		return nil, err
	}

	if _, err := k.call(kReq{Cmd: "reset"}); err != nil {
		return nil, err
	}

	w := &e1World{kind: kind, k: k, umask: umask, cwd: "/", users: map[int]avfs.UserReader{}, views: map[int]*fsx.Env{}}

	if kind == "orefafs" {
		w.fs = orefafs.NewWithOptions(&orefafs.Options{OSType: avfs.OsLinux})
	} else {
		w.idm = memidm.NewWithOptions(&memidm.Options{OSType: avfs.OsLinux})
		w.mem = memfs.NewWithOptions(&memfs.Options{OSType: avfs.OsLinux, Idm: w.idm})
		w.fs = w.mem
	}

	_ = w.fs.SetUMask(avfsMode(umask))
	w.env = &fsx.Env{VFS: w.fs}
	w.snap = fsx.Snapshot(w.fs, "/", fsx.SnapOpts{})

	return w, nil
}

// pathKind selects what a generated path should denote.
func (w *e1World) pick(t *sim.Tape, kinds string) string {
	var cands []string

	for i := range w.snap.Nodes {
		n := &w.snap.Nodes[i]
		if n.Path == "/" || strings.HasPrefix(n.Path, "/home") || strings.HasPrefix(n.Path, "/root") {
			continue
		}

		if strings.IndexByte(kinds, n.Type) >= 0 {
			cands = append(cands, n.Path)
		}
	}

	if len(cands) == 0 {
		return ""
	}

	return cands[t.Int(len(cands))]
}

func (w *e1World) newUnder(t *sim.Tape, dir string) string {
	if dir == "" || dir == "/" {
		return "/" + e1Names[t.Int(len(e1Names))]
	}

	return dir + "/" + e1Names[t.Int(len(e1Names))]
}

// genPath draws a path by class; the classes follow the statement's quantifier (existing of each type,
// missing, missing parent, below a file, the root).
func (w *e1World) genPath(t *sim.Tape, symlinks bool) string {
	k := t.Weighted([]int{30, 22, 8, 25, 6, 5, 2, 2})
	p := ""

	switch k {
	case 0:
		p = w.pick(t, "f")
	case 1:
		p = w.pick(t, "d")
	case 2:
		if symlinks {
			p = w.pick(t, "l")
		}
	case 3:
		p = w.newUnder(t, w.pick(t, "d"))
	case 4: // missing parent
		p = w.newUnder(t, w.newUnder(t, w.pick(t, "d")))
	case 5: // below a file
		if f := w.pick(t, "f"); f != "" {
			p = f + "/" + e1Names[t.Int(len(e1Names))]
		}
	case 6:
		p = "/"
	case 7:
		if symlinks {
			if l := w.pick(t, "l"); l != "" {
				p = l + "/" + e1Names[t.Int(len(e1Names))]
			}
		}
	}

	if p == "" {
		p = w.newUnder(t, "")
	}

	if t.Chance(40) && p != "/" {
		// a trailing separator: only a directory may precede it.
		return p + "/"
	}

	// relative form when the path lies below the current directory.
	if w.cwd != "/" && strings.HasPrefix(p, w.cwd+"/") && t.Chance(500) {
		p = strings.TrimPrefix(p, w.cwd+"/")
	} else if w.cwd == "/" && t.Chance(80) {
		p = strings.TrimPrefix(p, "/")
		if p == "" {
			p = "."
		}
	}

	return p
}

// e1Outcome is the result of one lockstep step.
type e1Outcome struct {
	a, k      fsx.Result
	classes   []string
	violation *sim.Violation
	harness   string
	cut       bool // stop the run without verdict (C07's territory)
}

func opPathsOf(o fsx.Op) []string {
	switch o.K {
	case "Rename", "Link":
		return []string{o.P, o.Q}
	case "Symlink":
		return []string{o.Q}
	case "Getwd":
		// classified through ".": tells whether the current directory was removed or renamed since it was entered.
		return []string{"."}
	}

	if strings.HasPrefix(o.K, "F") {
		return nil
	}

	return []string{o.P}
}

func relation(a, b string, cwd string) string {
	abs := func(p string) string {
		if !strings.HasPrefix(p, "/") {
			p = cwd + "/" + p
		}

		return cleanAbs(p)
	}

	x, y := abs(a), abs(b)

	switch {
	case x == y:
		return "same"
	case strings.HasPrefix(y, strings.TrimSuffix(x, "/")+"/"):
		return "p-anc-of-q"
	case strings.HasPrefix(x, strings.TrimSuffix(y, "/")+"/"):
		return "q-anc-of-p"
	}

	dx, dy := x[:strings.LastIndexByte(x, '/')], y[:strings.LastIndexByte(y, '/')]
	if dx == dy {
		return "same-dir"
	}

	return "diff-dir"
}

// sigPrefix is the part of a signature known before the call: file system, call with the arguments
// that matter, pre-state classes of its operands (taken on the reference side).
func (w *e1World) sigPrefix(o fsx.Op, classes []string) string {
	s := w.kind + "|" + o.K

	switch o.K {
	case "OpenFile":
		s += "(" + fsx.FlagString(o.Flag&^os.O_SYNC) + ")"
	case "Truncate", "FTruncate":
		if o.Size < 0 {
			s += "(negative)"
		}
	case "EvalSymlinks":
		if !strings.HasPrefix(o.P, "/") {
			s += "(relative)"
		}
	case "Glob":
		s += "(" + patternShape(o.P) + ")"
	case "WalkDir":
		s += fmt.Sprintf("(act%d)", o.Act)
	}

	// how a path is written (relative, unclean) is not part of what it denotes.
	cl := make([]string, len(classes))
	for i, x := range classes {
		x = strings.ReplaceAll(x, ",rel", "")
		cl[i] = strings.ReplaceAll(x, ",unclean", "")
	}

	s += "|" + strings.Join(cl, ";")

	if w.sugid && !strings.Contains(s, "sugid") {
		s += ",sugid-run"
	}

	if ps := opPathsOf(o); len(ps) == 2 {
		s += ";" + relation(ps[0], ps[1], w.cwd)
	}

	return s
}

// step executes one call on both sides and compares results and trees.
func (w *e1World) step(c *sim.Ctx, prop string, i int, o fsx.Op, env *fsx.Env, uid, gid int, umask uint32) e1Outcome {
	var out e1Outcome

	if ps := opPathsOf(o); len(ps) > 0 {
		rs, err := w.k.call(kReq{Cmd: "classify", Paths: ps, Cwd: w.cwd})
		if err != nil {
			out.harness = "kernel helper: " + err.Error()

			return out
		}

		out.classes = rs.Classes
	}

	if strings.HasPrefix(o.K, "F") {
		// what the handle is, before the call.
		hc := "hnone"
		if o.H >= 0 && o.H < fsx.MaxHandles && env.H[o.H] != nil {
			hc = "hfile"
			if env.IsDir[o.H] {
				hc = "hdir"
			}
		}

		out.classes = []string{hc}

		if (o.K == "FChdir" || o.K == "FReadDir" || o.K == "FReaddirnames") && hc == "hdir" {
			// has the directory been renamed or removed since the handle was opened?
			if rs, err := w.k.call(kReq{Cmd: "hclass", Op: o}); err == nil && len(rs.Classes) == 1 {
				out.classes = rs.Classes
			}
		}
	}

	op := o
	// temporary names come from the scheduler's seam (client 0, call i): the same run chooses the same names.
	raw, v, msg := sim.Call1As(0, i, 9973, func() string {
		out.a = env.Exec(op)

		return out.a.String()
	})

	if v == sim.VHarness {
		out.harness = msg

		return out
	}

	if v != sim.VOK {
		// the call did not return (deadlock, endless loop, panic): that is property C07, whichever check meets it.
		out.a = fsx.Result{Err: v.String()}
		c.Count("call_did_not_return_"+v.String(), 1)

		sig := w.kind + " " + v.String() + " " + o.String()
		if v == sim.VPanic {
			sig = w.kind + " panic " + o.K + ": " + normPanic(strings.TrimPrefix(raw, "panic:"))
		}

		out.violation = &sim.Violation{Prop: "C07", Class: v.String(), Sig: sig, Msg: fmt.Sprintf("call %d %s on %s: %s %s", i, o, w.kind, v, msg)}

		return out
	}

	kop := o
	if (o.K == "CreateTemp" || o.K == "MkdirTemp") && out.a.Err == "ok" {
		kop.Hint = env.LastTemp
		if !strings.HasPrefix(kop.Hint, "/") {
			kop.Hint = w.cwd + "/" + kop.Hint
		}
	} else if o.K == "CreateTemp" || o.K == "MkdirTemp" {
		kop.Hint = "-"
	}

	rs, err := w.k.call(kReq{Cmd: "exec", Op: kop, Uid: uid, Gid: gid, Umask: umask})
	if err != nil {
		out.harness = "kernel helper: " + err.Error()

		return out
	}

	out.k = rs.Res
	pre := w.sigPrefix(o, out.classes)

	if w.norm != nil {
		w.norm(o, &out.a, &out.k)
	}

	if w.kind == "orefafs" {
		// OrefaFS advertises no identity manager: owners are not compared.
		out.a.Data = ownerRE.ReplaceAllString(out.a.Data, " -:-")
		out.k.Data = ownerRE.ReplaceAllString(out.k.Data, " -:-")
	}

	if o.K == "RemoveAll" && out.a.Err != "ok" && out.k.Err != "ok" {
		// RemoveAll "returns the first error it encounters", in a traversal order that is not specified:
		// when both fail the errno is not compared.
		out.k.Err = out.a.Err
	}

	if out.a.Err != out.k.Err {
		out.violation = &sim.Violation{
			Prop: prop, Class: "errno-differs", Sig: pre + " => want=" + out.k.Err + " got=" + out.a.Err,
			Msg: fmt.Sprintf("call %d %s: Linux %q, %s %q", i, o, out.k, w.kind, out.a),
		}

		return out
	}

	if out.a.Data != out.k.Data && !strings.HasPrefix(out.k.Data, "ref-rename") {
		out.violation = &sim.Violation{
			Prop: prop, Class: "data-differs", Sig: pre + " => data differs (" + out.a.Err + ")",
			Msg: fmt.Sprintf("call %d %s: Linux %q, %s %q", i, o, out.k, w.kind, out.a),
		}

		return out
	}

	// trees
	ks, err := w.k.call(kReq{Cmd: "snap", NoOwn: w.kind == "orefafs"})
	if err != nil {
		out.harness = "kernel helper: " + err.Error()

		return out
	}

	w.snap = fsx.Snapshot(w.fs, "/", fsx.SnapOpts{Tops: topNamesE1, NoOwner: w.kind == "orefafs"})
	as := w.snap.String()

	if o.K == "RemoveAll" && out.a.Err != "ok" {
		// what it leaves behind need not be what the kernel leaves, but it must be a tree: every listed name exists.
		for k := range w.snap.Nodes {
			if n := &w.snap.Nodes[k]; n.Type == '!' {
				out.violation = &sim.Violation{
					Prop: "C05", Class: "structure", Sig: w.kind + " after a RemoveAll that failed a directory lists a name that Lstat does not find",
					Msg: fmt.Sprintf("call %d %s (%s): %s is listed by its directory but Lstat answers %s", i, o, out.a.Err, n.Path, n.Err),
				}

				return out
			}
		}

		for _, pr := range w.snap.Problems {
			out.violation = &sim.Violation{
				Prop: "C05", Class: "structure", Sig: w.kind + " after a RemoveAll that failed the tree is not well formed",
				Msg: fmt.Sprintf("call %d %s (%s): %s", i, o, out.a.Err, pr),
			}

			return out
		}

		// a RemoveAll that fails removes what it can, in an order that is not specified: the administrator
		// finishes the job on both sides, after which the trees must agree again.
		target := o.P
		if !strings.HasPrefix(target, "/") {
			target = w.cwd + "/" + target
		}

		targets := []string{cleanAbs(target)}
		if targets[0] == "/" {
			// everything below the root (the helper's RemoveAll of "/" empties the root too).
			for k := range w.snap.Nodes {
				if n := w.snap.Nodes[k].Path; n != "/" && strings.Count(n, "/") == 1 {
					_ = w.fs.RemoveAll(n)
				}
			}
		} else {
			_ = w.fs.RemoveAll(targets[0])
		}

		if _, err := w.k.call(kReq{Cmd: "wipe", Paths: targets}); err != nil {
			out.harness = "kernel helper: " + err.Error()

			return out
		}

		c.Count("resync_after_failed_removeall", 1)

		if ks, err = w.k.call(kReq{Cmd: "snap", NoOwn: w.kind == "orefafs"}); err != nil {
			out.harness = "kernel helper: " + err.Error()

			return out
		}

		w.snap = fsx.Snapshot(w.fs, "/", fsx.SnapOpts{Tops: topNamesE1, NoOwner: w.kind == "orefafs"})
		as = w.snap.String()
	}

	if as != ks.Snap {
		out.violation = &sim.Violation{
			Prop: prop, Class: "tree-differs", Sig: pre + " => tree differs (" + out.a.Err + ")",
			Msg: fmt.Sprintf("call %d %s (both %s): trees differ (- Linux, + %s)\n%s", i, o, out.a.Err, w.kind, fsx.Diff(ks.Snap, as)),
		}

		return out
	}

	if out.a.Err == "ok" && o.Perm&0o6000 != 0 && (o.K == "Chmod" || o.K == "Mkdir" || o.K == "MkdirAll" || o.K == "OpenFile" || o.K == "FChmod") {
		w.sugid = true
	}

	if (o.K == "Chdir" || o.K == "FChdir") && out.a.Err == "ok" {
		// the directory the library believes to be in (symbolic links resolved) is the one the kernel is in.
		if wd, err := env.VFS.Getwd(); err == nil {
			w.cwd = wd
		}

		if kr, err := w.k.call(kReq{Cmd: "exec", Op: fsx.Op{K: "Getwd"}}); err == nil && kr.Res.Err == "ok" && kr.Res.Data != w.cwd {
			out.violation = &sim.Violation{
				Prop: prop, Class: "cwd-differs", Sig: pre + " => the current directory differs after the call",
				Msg: fmt.Sprintf("call %d %s: Linux is in %q, %s in %q", i, o, kr.Res.Data, w.kind, w.cwd),
			}

			return out
		}
	}

	return out
}

var ownerRE = regexp.MustCompile(` -?\d+:-?\d+`) //nolint:gochecknoglobals // uid:gid in an InfoString.

var topNamesE1 = []string{"a", "ab", "b", "d", "home", "root", "tmp"} //nolint:gochecknoglobals // top-level universe.

// avoided tells whether the generators should steer clear of a call (filtered mode).
func (w *e1World) avoided(c *sim.Ctx, prop string, o fsx.Op) bool {
	if c.KS == nil {
		return false
	}

	ps := opPathsOf(o)
	if len(ps) == 0 {
		return c.KS.Avoided(prop, w.sigPrefix(o, nil))
	}

	rs, err := w.k.call(kReq{Cmd: "classify", Paths: ps, Cwd: w.cwd})
	if err != nil {
		return false
	}

	return c.KS.Avoided(prop, w.sigPrefix(o, rs.Classes))
}

// insteadOf is the harmless query issued in place of a call that a filtered run steers clear of.
func insteadOf(o fsx.Op) fsx.Op {
	if o.P == "" {
		return fsx.Op{K: "Lstat", P: "."}
	}

	return fsx.Op{K: "Lstat", P: o.P}
}
