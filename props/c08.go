package props

import (
	"fmt"
	"os"
	"regexp"
	"sort"
	"strings"

	"github.com/avfs/avfs"
	"github.com/avfs/avfs/idm/memidm"

	"verif/fsx"
	"verif/sim"
)

// C08 — no data race under the documented concurrent use.
type C08 struct{}

func (C08) ID() string { return "C08" }

func (C08) Describe() sim.Description {
	return sim.Description{
		Level: "exploration",
		Rule: "one case = a program of 2-8 clients x 1-4 calls on one shared MemFS tree (per-client Sub views with different users, umasks and working " +
			"directories), one shared OrefaFS, one shared MemIdm, with own handles and optionally one handle shared by all clients, executed in one seeded " +
			"interleaving at lock-acquisition granularity in a binary built with -race; the scheduler's hand-offs are hidden from the detector " +
			"(runtime.RaceDisable around every hand-off, client-side simulator code is go:norace), so two conflicting accesses not ordered by avfs's own locks " +
			"are reported whenever both occur in the run; verdict = runtime.RaceErrors() increased during the run; non-trivial = at least two calls changed state " +
			"and at least one decision point had several runnable clients; distinct by hash of configuration + calls + decisions",
		Explanation: "deterministic simulation coupled with the Go race detector: the detector's happens-before analysis makes the verdict independent of timing once both accesses are in the run; " +
			"the visibility sentence of the statement is the real-time-order part of C06",
		Assumptions: []string{
			"the Go race detector (ThreadSanitizer) reports every pair of conflicting accesses of one run that is not ordered by visible synchronisation; it deduplicates identical reports per process, so shrinking and replay use fresh processes",
			"spawn (go statement) and join (WaitGroup) of client goroutines stay visible to the detector, as in a user's program",
		},
		RealCode: []string{"vfs/memfs", "vfs/orefafs", "idm/memidm", "umask.go, curdir.go, curuser.go"},
		Stubs:    []string{"goroutine interleaving is serialised by the scheduler (one client runs at a time)"},
	}
}

// ExternalShrink tells the runner to evaluate shrink candidates in fresh processes.
func (C08) ExternalShrink() bool { return true }

func raceLogPath() string {
	g := os.Getenv("GORACE")
	for _, f := range strings.Fields(g) {
		if strings.HasPrefix(f, "log_path=") {
			return strings.TrimPrefix(f, "log_path=") + "." + fmt.Sprint(os.Getpid())
		}
	}

	return ""
}

var frameRE = regexp.MustCompile(`^\s+(github\.com/avfs/avfs\S*?)\(\)\s*$`) //nolint:gochecknoglobals // parser.

// raceSignature extracts, from the new part of the race log, the innermost avfs function of each
// of the two conflicting accesses of the first report.
func raceSignature(text string) (sig, first string) {
	blocks := strings.Split(text, "==================")

	for _, b := range blocks {
		if !strings.Contains(b, "DATA RACE") {
			continue
		}

		var tops []string

		lines := strings.Split(b, "\n")
		inAccess := false

		for _, l := range lines {
			if strings.HasPrefix(l, "Read at") || strings.HasPrefix(l, "Write at") || strings.HasPrefix(l, "Previous read at") ||
				strings.HasPrefix(l, "Previous write at") || strings.HasPrefix(l, "Atomic") || strings.HasPrefix(l, "Previous atomic") {
				inAccess = true

				continue
			}

			if strings.HasPrefix(l, "Goroutine") {
				inAccess = false
			}

			if inAccess {
				if m := frameRE.FindStringSubmatch(l); m != nil {
					fn := strings.TrimPrefix(m[1], "github.com/avfs/avfs")
					tops = append(tops, fn)
					inAccess = false
				}
			}
		}

		sort.Strings(tops)

		if len(b) > 3000 {
			b = b[:3000]
		}

		return strings.Join(tops, " <-> "), b
	}

	return "unparsed race report", text
}

func (p C08) Run(c *sim.Ctx, t *sim.Tape) sim.RunResult {
	if !sim.RaceBuild {
		return sim.RunResult{Harness: "C08 needs the -race build of the simulator"}
	}

	logPath := raceLogPath()

	var before int64

	if logPath != "" {
		if st, err := os.Stat(logPath); err == nil {
			before = st.Size()
		}
	}

	errsBefore := sim.RaceErrors()

	var (
		res  sim.RunResult
		what string
	)

	if t.Chance(250) {
		res, what = p.runIdm(c, t)
	} else {
		res, what = p.runFS(c, t)
	}

	if res.Harness != "" {
		return res
	}

	if sim.RaceErrors() == errsBefore {
		return res
	}

	text := ""

	if logPath != "" {
		if b, err := os.ReadFile(logPath); err == nil && int64(len(b)) > before {
			text = string(b[before:])
		}
	}

	sig, report := raceSignature(text)
	res.Violation = &sim.Violation{Prop: "C08", Class: "datarace", Sig: what + " race " + sig, Msg: "Go race detector: " + report}

	return res
}

func (p C08) runFS(c *sim.Ctx, t *sim.Tape) (sim.RunResult, string) {
	cfg := genConc(t, []string{"memfs", "orefafs"}, 8, 3+deeper(c, t), false)
	cfg.Users = cfg.FS == "memfs" && t.Chance(500)
	cfg.SharedH = t.Chance(400)

	// per-view setters mixed in (MemFS views only: OrefaFS is used with absolute paths and one user).
	if cfg.FS == "memfs" {
		for ci := range cfg.Progs {
			if t.Chance(300) {
				extra := []fsx.Op{{K: "SetUMask", Perm: 0o27}, {K: "Chdir", P: "/a"}, {K: "Getwd"}, {K: "UMask"}, {K: "User"}}[t.Int(5)]
				cfg.Progs[ci] = append([]fsx.Op{extra}, cfg.Progs[ci]...)
			}
		}
	}

	if t.Chance(250) {
		// shared-handle profile: every client works on the one handle they all share.
		cfg.SharedH = true

		for ci := range cfg.Progs {
			cfg.Progs[ci] = nil

			for j := 0; j < 3 && (j == 0 || t.Chance(600)); j++ {
				k := []string{"FRead", "FWrite", "FSeek", "FReadAt", "FWriteAt", "FTruncate", "FStat", "FSync", "FWriteString", "FClose", "FChmod"}[t.Int(11)]
				o := fsx.Op{K: k, H: sharedSlot, N: t.Int(4), Size: int64(t.Int(6)), Data: fmt.Sprintf("<%d.%d>", ci, j), Perm: 0o640}
				cfg.Progs[ci] = append(cfg.Progs[ci], o)
			}
		}

		c.Count("runs_shared_handle_profile", 1)
	}

	r := runConc(t, cfg)

	defer r.S.Free()

	res := sim.RunResult{Steps: r.S.Steps, Trace: r.Trace, TraceHash: r.hash()}
	res.Nontrivial = r.OkMut >= 2 && r.S.DecPoints > 0
	res.OrderSensitive = r.S.BatchBlocks > 0
	c.Count("runs_"+cfg.FS, 1)
	c.Count("decision_points", int64(r.S.DecPoints))
	c.Count("blocked_observed", int64(r.S.BlockedSeen))

	if cfg.SharedH {
		c.Count("runs_with_shared_handle", 1)
	}

	if cfg.Users {
		c.Count("runs_with_distinct_users", 1)
	}

	if r.Verdict == sim.VHarness {
		res.Harness = r.Msg
	} else if r.Verdict != sim.VOK {
		c.Count("inconclusive_"+r.Verdict.String(), 1)
	}

	return res, cfg.FS
}

func (p C08) runIdm(c *sim.Ctx, t *sim.Tape) (sim.RunResult, string) {
	idm := memidm.NewWithOptions(&memidm.Options{OSType: avfs.OsLinux})
	ids := []int{0, 1000, 1001, 1002, 1003}
	n := 2

	for n < 6 && t.Chance(400) {
		n++
	}

	s := sim.NewSched(t)

	defer s.Free()

	s.Strategy = t.Int(4)
	s.PreemptPM = []int{20, 100, 300}[t.Int(3)]
	tr := c15Trace{Mode: "concurrent", Strategy: s.Strategy}
	okMut := 0

	for ci := 0; ci < n; ci++ {
		var (
			ops  []sim.OpFunc
			strs []string
		)

		for j := 0; j < 4 && (j == 0 || t.Chance(650)); j++ {
			o := genIdmOp(t, ids, true)
			ops = append(ops, func() string { return idmExec(idm, o) })
			strs = append(strs, o.String())
		}

		s.AddClient(ops)
		tr.Programs = append(tr.Programs, strs)
	}

	verdict, msg := s.Run()
	sim.Deactivate()

	tr.Decisions = sim.Ints(s.Decisions)

	for ci := 0; ci < n; ci++ {
		var outs []string

		for _, r := range s.Records(ci) {
			outs = append(outs, r.Out)

			if strings.HasPrefix(r.Out, "ok") {
				okMut++
			}
		}

		tr.Outcomes = append(tr.Outcomes, outs)
	}

	res := sim.RunResult{Steps: s.Steps, Trace: tr, TraceHash: sim.HashString(fmt.Sprint(tr.Programs, tr.Decisions))}
	res.Nontrivial = okMut >= 2 && s.DecPoints > 0
	c.Count("runs_memidm", 1)

	if verdict == sim.VHarness {
		res.Harness = msg
	}

	return res, "memidm"
}
