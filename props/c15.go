// Package props holds one file per property: workload generator, oracle and evidence text.
package props

import (
	"errors"
	"fmt"
	"sort"
	"strconv"
	"strings"
	"time"

	"github.com/avfs/avfs"
	"github.com/avfs/avfs/idm/memidm"

	"verif/sim"
)

// C15 — the in-memory identity manager stays consistent.
type C15 struct {
	// AsC07: run the concurrent MemIdm programs for C07 (every call returns): a deadlock, hang or panic
	// verdict is then the violation, and the results are not judged.
	AsC07 bool
}

func (C15) ID() string { return "C15" }

func (C15) Describe() sim.Description {
	return sim.Description{
		Level: "exploration",
		Rule: "one case = one seeded history of AddGroup/AddUser/DelUser/DelGroup/Lookup* calls over a 6-name pool " +
			"(administrator names included), run either by one client step by step against the two-map model, or by " +
			"2-4 clients whose interleaving at lock-acquisition granularity is drawn from the same tape and whose history " +
			"is checked for linearizability (porcupine) against that model; non-trivial = at least two successful mutators " +
			"(concurrent: plus at least one decision point with more than one runnable client); distinct by hash of calls+decisions",
		Explanation: "deterministic simulation: a serialising scheduler owns every RWMutex acquisition of MemIdm (hook H1); " +
			"every choice comes from one tape; oracle is a pure reference model (names, ids ever handed out)",
		Assumptions: []string{
			"the scheduler's model of sync.RWMutex (writer announcement blocks new readers) is trusted; each grant is cross-checked with TryLock",
			"code between two lock operations of one client is atomic in the simulation; conflicts there are C08's (race detector)",
		},
		RealCode: []string{"idm/memidm (all of it)", "errors.go error types"},
		Stubs:    []string{"blocking of sync.RWMutex is modelled by the scheduler; the real mutex operation still executes after the grant"},
	}
}

type idmOp struct {
	K    string `json:"k"`
	Name string `json:"name,omitempty"`
	Grp  string `json:"group,omitempty"`
	ID   int    `json:"id,omitempty"`
}

func (o idmOp) String() string {
	switch o.K {
	case "AddUser":
		return fmt.Sprintf("AddUser(%q,%q)", o.Name, o.Grp)
	case "LookupGroupId", "LookupUserId":
		return fmt.Sprintf("%s(%d)", o.K, o.ID)
	default:
		return fmt.Sprintf("%s(%q)", o.K, o.Name)
	}
}

func idmErr(err error) string {
	if err == nil {
		return "ok"
	}

	var (
		eg  avfs.AlreadyExistsGroupError
		eu  avfs.AlreadyExistsUserError
		ug  avfs.UnknownGroupError
		uu  avfs.UnknownUserError
		ugi avfs.UnknownGroupIdError
		uui avfs.UnknownUserIdError
	)

	switch {
	case errors.As(err, &eg):
		return "exists-group:" + string(eg)
	case errors.As(err, &eu):
		return "exists-user:" + string(eu)
	case errors.As(err, &ug):
		return "unknown-group:" + string(ug)
	case errors.As(err, &uu):
		return "unknown-user:" + string(uu)
	case errors.As(err, &ugi):
		return "unknown-gid:" + strconv.Itoa(int(ugi))
	case errors.As(err, &uui):
		return "unknown-uid:" + strconv.Itoa(int(uui))
	}

	return "other:" + err.Error()
}

func idmExec(idm *memidm.MemIdm, o idmOp) string {
	switch o.K {
	case "AddGroup":
		g, err := idm.AddGroup(o.Name)
		if err != nil {
			return idmErr(err)
		}

		return fmt.Sprintf("ok group %q gid=%d", g.Name(), g.Gid())
	case "AddUser":
		u, err := idm.AddUser(o.Name, o.Grp)
		if err != nil {
			return idmErr(err)
		}

		return fmt.Sprintf("ok user %q uid=%d gid=%d admin=%v", u.Name(), u.Uid(), u.Gid(), u.IsAdmin())
	case "DelGroup":
		return idmErr(idm.DelGroup(o.Name))
	case "DelUser":
		return idmErr(idm.DelUser(o.Name))
	case "LookupGroup":
		g, err := idm.LookupGroup(o.Name)
		if err != nil {
			return idmErr(err)
		}

		return fmt.Sprintf("ok group %q gid=%d", g.Name(), g.Gid())
	case "LookupUser":
		u, err := idm.LookupUser(o.Name)
		if err != nil {
			return idmErr(err)
		}

		return fmt.Sprintf("ok user %q uid=%d gid=%d admin=%v", u.Name(), u.Uid(), u.Gid(), u.IsAdmin())
	case "LookupGroupId":
		g, err := idm.LookupGroupId(o.ID)
		if err != nil {
			return idmErr(err)
		}

		return fmt.Sprintf("ok group %q gid=%d", g.Name(), g.Gid())
	case "LookupUserId":
		u, err := idm.LookupUserId(o.ID)
		if err != nil {
			return idmErr(err)
		}

		return fmt.Sprintf("ok user %q uid=%d gid=%d admin=%v", u.Name(), u.Uid(), u.Gid(), u.IsAdmin())
	}

	return "unknown-op"
}

// idmModel is the two-map reference model. Ids are taken from the observed output and
// only constrained: fresh (never handed out before) and not the administrator's.
type idmModel struct {
	groups   map[string]int
	users    map[string][2]int
	usedGids map[int]bool
	usedUids map[int]bool
}

func newIdmModel() *idmModel {
	return &idmModel{
		groups: map[string]int{idmAdminGroup: 0}, users: map[string][2]int{idmAdminUser: {0, 0}},
		usedGids: map[int]bool{0: true}, usedUids: map[int]bool{0: true},
	}
}

func (m *idmModel) encode() string {
	var parts []string

	for n, g := range m.groups {
		parts = append(parts, fmt.Sprintf("g:%s=%d", n, g))
	}

	for n, u := range m.users {
		parts = append(parts, fmt.Sprintf("u:%s=%d/%d", n, u[0], u[1]))
	}

	for g := range m.usedGids {
		parts = append(parts, fmt.Sprintf("G:%d", g))
	}

	for u := range m.usedUids {
		parts = append(parts, fmt.Sprintf("U:%d", u))
	}

	sort.Strings(parts)

	return strings.Join(parts, ";")
}

func decodeIdmModel(s string) *idmModel {
	m := &idmModel{groups: map[string]int{}, users: map[string][2]int{}, usedGids: map[int]bool{}, usedUids: map[int]bool{}}

	for _, p := range strings.Split(s, ";") {
		if len(p) < 2 {
			continue
		}

		body := p[2:]

		switch p[0] {
		case 'g':
			i := strings.LastIndexByte(body, '=')
			g, _ := strconv.Atoi(body[i+1:])
			m.groups[body[:i]] = g
		case 'u':
			i := strings.LastIndexByte(body, '=')
			ids := strings.Split(body[i+1:], "/")
			u, _ := strconv.Atoi(ids[0])
			g, _ := strconv.Atoi(ids[1])
			m.users[body[:i]] = [2]int{u, g}
		case 'G':
			g, _ := strconv.Atoi(body)
			m.usedGids[g] = true
		case 'U':
			u, _ := strconv.Atoi(body)
			m.usedUids[u] = true
		}
	}

	return m
}

// step validates out as a result of o in state m and applies it. why explains a refusal.
func (m *idmModel) step(o idmOp, out string) (ok bool, why string) {
	out, _ = splitAdmin(out) // the IsAdmin flag is judged separately (adminAnomaly)
	groupOut := func(name string, gid int) string { return fmt.Sprintf("ok group %q gid=%d", name, gid) }
	userOut := func(name string, u [2]int) string {
		return fmt.Sprintf("ok user %q uid=%d gid=%d", name, u[0], u[1])
	}

	switch o.K {
	case "AddGroup":
		if _, exists := m.groups[o.Name]; exists {
			return out == "exists-group:"+o.Name, "want exists-group"
		}

		var (
			name string
			gid  int
		)

		if n, _ := fmt.Sscanf(out, "ok group %q gid=%d", &name, &gid); n != 2 || name != o.Name {
			return false, "want ok group " + o.Name
		}

		if m.usedGids[gid] {
			return false, fmt.Sprintf("gid %d was already handed out", gid)
		}

		m.usedGids[gid] = true
		m.groups[o.Name] = gid

		return true, ""
	case "AddUser":
		gid, gok := m.groups[o.Grp]
		if !gok {
			return out == "unknown-group:"+o.Grp, "want unknown-group"
		}

		if _, exists := m.users[o.Name]; exists {
			return out == "exists-user:"+o.Name, "want exists-user"
		}

		var (
			name    string
			uid, og int
		)

		if n, _ := fmt.Sscanf(out, "ok user %q uid=%d gid=%d", &name, &uid, &og); n != 3 || name != o.Name {
			return false, "want ok user " + o.Name
		}

		if og != gid {
			return false, fmt.Sprintf("user got gid %d, group %s has gid %d", og, o.Grp, gid)
		}

		if m.usedUids[uid] {
			return false, fmt.Sprintf("uid %d was already handed out", uid)
		}

		m.usedUids[uid] = true
		m.users[o.Name] = [2]int{uid, gid}

		return true, ""
	case "DelGroup":
		if _, exists := m.groups[o.Name]; !exists {
			return out == "unknown-group:"+o.Name, "want unknown-group"
		}

		if out != "ok" {
			return false, "want ok"
		}

		delete(m.groups, o.Name)

		return true, ""
	case "DelUser":
		if _, exists := m.users[o.Name]; !exists {
			return out == "unknown-user:"+o.Name, "want unknown-user"
		}

		if out != "ok" {
			return false, "want ok"
		}

		delete(m.users, o.Name)

		return true, ""
	case "LookupGroup":
		g, exists := m.groups[o.Name]
		if !exists {
			return out == "unknown-group:"+o.Name, "want unknown-group"
		}

		return out == groupOut(o.Name, g), "want " + groupOut(o.Name, g)
	case "LookupUser":
		u, exists := m.users[o.Name]
		if !exists {
			return out == "unknown-user:"+o.Name, "want unknown-user"
		}

		return out == userOut(o.Name, u), "want " + userOut(o.Name, u)
	case "LookupGroupId":
		for n, g := range m.groups {
			if g == o.ID {
				return out == groupOut(n, g), "want " + groupOut(n, g)
			}
		}

		return out == "unknown-gid:"+strconv.Itoa(o.ID), "want unknown-gid"
	case "LookupUserId":
		for n, u := range m.users {
			if u[0] == o.ID {
				return out == userOut(n, u), "want " + userOut(n, u)
			}
		}

		return out == "unknown-uid:"+strconv.Itoa(o.ID), "want unknown-uid"
	}

	return false, "unknown op"
}

// splitAdmin separates the IsAdmin flag from a user outcome.
func splitAdmin(out string) (base, admin string) {
	if i := strings.Index(out, " admin="); i >= 0 {
		return out[:i], out[i+7:]
	}

	return out, ""
}

// adminAnomaly judges the IsAdmin flag of a returned user: "" when it is true exactly for uid 0.
func adminAnomaly(out string) *sim.Violation {
	base, admin := splitAdmin(out)
	if admin == "" {
		return nil
	}

	var (
		name     string
		uid, gid int
	)

	if n, _ := fmt.Sscanf(base, "ok user %q uid=%d gid=%d", &name, &uid, &gid); n != 3 {
		return nil
	}

	want := strconv.FormatBool(uid == 0)
	if admin == want {
		return nil
	}

	sig := "memidm IsAdmin=" + admin + " for uid!=0 gid!=0"
	if uid != 0 && gid == 0 {
		sig = "memidm IsAdmin=true for a non-administrator user whose primary group is the administrator group"
	} else if uid == 0 {
		sig = "memidm IsAdmin=false for uid 0"
	}

	return &sim.Violation{Prop: "C15", Class: "isadmin", Sig: sig, Msg: fmt.Sprintf("%q: IsAdmin must be %s", out, want)}
}

// The name pool and the administrator's names of the run in progress (set at the start of every run, on the
// main goroutine; clients only see operations already built from them).
var (
	idmNames      = []string{"root", "g1", "g2", "u1", "u2", "x"} //nolint:gochecknoglobals // pool.
	idmAdminUser  = "root"                                        //nolint:gochecknoglobals // see above.
	idmAdminGroup = "root"                                        //nolint:gochecknoglobals // see above.
)

// idmSetOSType selects the documented names of the administrator for the OS type emulated in this run.
func idmSetOSType(ost avfs.OSType) {
	if ost == avfs.OsWindows {
		idmAdminUser, idmAdminGroup = "ContainerAdministrator", "Administrators"
		idmNames = []string{idmAdminUser, idmAdminGroup, "g1", "g2", "u1", "u2", "x", ""}

		return
	}

	idmAdminUser, idmAdminGroup = "root", "root"
	idmNames = []string{"root", "g1", "g2", "u1", "u2", "x", ""}
}

func genIdmOp(t *sim.Tape, ids []int, noAdminGroup bool) idmOp {
	k := t.Weighted([]int{4, 5, 3, 3, 2, 2, 2, 2})
	kinds := []string{"AddGroup", "AddUser", "DelUser", "DelGroup", "LookupGroup", "LookupUser", "LookupGroupId", "LookupUserId"}
	o := idmOp{K: kinds[k]}

	switch o.K {
	case "AddUser":
		o.Name = t.Pick(idmNames)
		o.Grp = t.Pick(idmNames)

		if noAdminGroup && o.Grp == idmAdminGroup {
			o.Grp = "g1"
		}
	case "LookupGroupId", "LookupUserId":
		o.ID = ids[t.Int(len(ids))]
	default:
		o.Name = t.Pick(idmNames)
	}

	return o
}

type c15Trace struct {
	Mode      string     `json:"mode"`
	Strategy  int        `json:"strategy,omitempty"`
	Programs  [][]string `json:"programs"`
	Outcomes  [][]string `json:"outcomes"`
	Decisions []int      `json:"decisions,omitempty"`
	Verdict   string     `json:"verdict,omitempty"`
}

func (p C15) Run(c *sim.Ctx, t *sim.Tape) sim.RunResult {
	concurrent := t.Chance(600) || p.AsC07
	// known finding (IsAdmin for members of the administrator group): 90% of the runs stay clear of it.
	_, kn := c.Known["C15|memidm IsAdmin=true for a non-administrator user whose primary group is the administrator group"]
	filtered := kn && !t.Chance(100)
	// a Windows-typed identity manager (other names for the administrator) where the build can emulate it.
	ost := avfs.OsLinux
	if avfs.BuildFeatures()&avfs.FeatSetOSType != 0 && t.Chance(300) {
		ost = avfs.OsWindows

		c.Count("windows_typed_runs", 1)
	}

	idmSetOSType(ost)

	idm := memidm.NewWithOptions(&memidm.Options{OSType: ost})
	ids := []int{0, 1, 999, 1000, 1001, 1002, 1003, 1004, 1005, 1006}

	if !concurrent {
		return p.runSeq(c, t, idm, ids, filtered)
	}

	nclients := t.Range(2, 4)
	progs := make([][]idmOp, nclients)
	s := sim.NewSched(t)

	defer s.Free()

	s.Strategy = t.Int(4)
	s.PreemptPM = []int{20, 100, 300}[t.Int(3)]
	tr := c15Trace{Mode: "concurrent", Strategy: s.Strategy}

	for ci := 0; ci < nclients; ci++ {
		for j := 0; j < 4 && (j == 0 || t.Chance(650)); j++ {
			progs[ci] = append(progs[ci], genIdmOp(t, ids, filtered))
		}

		ops := make([]sim.OpFunc, len(progs[ci]))
		strs := make([]string, len(progs[ci]))

		for j, o := range progs[ci] {
			o := o
			ops[j] = func() string { return idmExec(idm, o) }
			strs[j] = o.String()
		}

		s.AddClient(ops)
		tr.Programs = append(tr.Programs, strs)
	}

	verdict, msg := s.Run()
	sim.Deactivate()

	res := sim.RunResult{Steps: s.Steps}
	tr.Decisions = sim.Ints(s.Decisions)
	tr.Verdict = verdict.String()

	var hist []sim.HistOp

	okMut := 0

	for ci := 0; ci < nclients; ci++ {
		var outs []string

		for j, r := range s.Records(ci) {
			if !r.Done {
				outs = append(outs, "(not completed)")

				continue
			}

			outs = append(outs, r.Out)
			hist = append(hist, sim.HistOp{Client: ci, Index: j, In: progs[ci][j], Out: r.Out, Call: r.Invoke, Ret: r.Return})

			if strings.HasPrefix(r.Out, "ok") && (progs[ci][j].K[0] == 'A' || progs[ci][j].K[0] == 'D') {
				okMut++
			}
		}

		tr.Outcomes = append(tr.Outcomes, outs)
	}

	res.Trace = tr
	res.TraceHash = sim.HashString(fmt.Sprint(tr.Programs, tr.Decisions))
	res.Nontrivial = okMut >= 2 && s.DecPoints > 0
	c.Count("concurrent_runs", 1)
	c.Count("decision_points", int64(s.DecPoints))
	c.Count("blocked_observed", int64(s.BlockedSeen))

	switch verdict {
	case sim.VHarness:
		res.Harness = msg

		return res
	case sim.VDeadlock, sim.VHang, sim.VPanic:
		// C07's verdicts; for C15 the run is inconclusive.
		c.Count("inconclusive_"+verdict.String(), 1)

		if p.AsC07 {
			var kinds []string

			for _, pr := range progs {
				var k []string
				for _, o := range pr {
					k = append(k, o.K)
				}

				kinds = append(kinds, strings.Join(k, ","))
			}

			res.Violation = &sim.Violation{
				Prop: "C07", Class: verdict.String(), Sig: "memidm " + verdict.String() + " " + strings.Join(sortedCopy(kinds), " || "),
				Msg: "concurrent MemIdm calls: " + verdict.String() + " " + msg,
			}
		}

		return res
	}

	if p.AsC07 {
		c.Count("memidm_concurrent_runs", 1)

		return res
	}

	for _, h := range hist {
		if v := adminAnomaly(h.Out); v != nil {
			res.Violation = v

			return res
		}
	}

	init := newIdmModel().encode()
	lr := sim.CheckLin(hist, init, func(state string, in any, out string) (bool, string) {
		m := decodeIdmModel(state)
		ok, _ := m.step(in.(idmOp), out)

		if !ok {
			return false, state
		}

		return true, m.encode()
	}, 20*time.Second)

	switch lr {
	case sim.LinUnknown:
		c.Count("linearizability_unknown", 1)
	case sim.LinIllegal:
		res.Violation = &sim.Violation{
			Prop: "C15", Class: "nonlinearizable", Sig: "memidm concurrent history not linearizable",
			Msg: "no sequential order of the completed calls explains their results against the reference model",
		}

		return res
	}

	// final state must equal the model after some linearization: check invariants directly.
	if v := idmInvariants(idm, ids); v != "" {
		res.Violation = &sim.Violation{Prop: "C15", Class: "invariant", Sig: "memidm final-state invariant", Msg: v}
	}

	return res
}

// idmInvariants checks that by-name and by-id lookups agree on the final state.
func idmInvariants(idm *memidm.MemIdm, ids []int) string {
	for _, n := range idmNames {
		if g, err := idm.LookupGroup(n); err == nil {
			g2, err2 := idm.LookupGroupId(g.Gid())
			if err2 != nil || g2.Name() != n {
				return fmt.Sprintf("group %q found by name (gid %d) but lookup by id gives %v", n, g.Gid(), err2)
			}
		}

		if u, err := idm.LookupUser(n); err == nil {
			u2, err2 := idm.LookupUserId(u.Uid())
			if err2 != nil || u2.Name() != n {
				return fmt.Sprintf("user %q found by name (uid %d) but lookup by id gives %v", n, u.Uid(), err2)
			}

		}
	}

	for _, id := range ids {
		if g, err := idm.LookupGroupId(id); err == nil {
			g2, err2 := idm.LookupGroup(g.Name())
			if err2 != nil || g2.Gid() != id {
				return fmt.Sprintf("gid %d found by id (%q) but lookup by name gives %v", id, g.Name(), err2)
			}
		}

		if u, err := idm.LookupUserId(id); err == nil {
			u2, err2 := idm.LookupUser(u.Name())
			if err2 != nil || u2.Uid() != id {
				return fmt.Sprintf("uid %d found by id (%q) but lookup by name gives %v", id, u.Name(), err2)
			}
		}
	}

	return ""
}

func (p C15) runSeq(c *sim.Ctx, t *sim.Tape, idm *memidm.MemIdm, ids []int, filtered bool) sim.RunResult {
	n := 30
	m := newIdmModel()
	tr := c15Trace{Mode: "sequential", Programs: [][]string{nil}, Outcomes: [][]string{nil}}
	res := sim.RunResult{}
	okMut := 0

	// the administrator exists from the start.
	if u := idm.AdminUser(); u == nil || u.Uid() != 0 || !u.IsAdmin() {
		res.Violation = &sim.Violation{Prop: "C15", Class: "admin", Sig: "admin user at start", Msg: "administrator user missing or not admin at start"}

		return res
	}

	if g := idm.AdminGroup(); g == nil || g.Gid() != 0 {
		res.Violation = &sim.Violation{Prop: "C15", Class: "admin", Sig: "admin group at start", Msg: "administrator group missing at start"}

		return res
	}

	for i := 0; i < n && (i < 2 || t.Chance(900)); i++ {
		o := genIdmOp(t, ids, filtered)
		out, v, msg := sim.Call1(func() string { return idmExec(idm, o) })
		res.Steps++

		tr.Programs[0] = append(tr.Programs[0], o.String())
		tr.Outcomes[0] = append(tr.Outcomes[0], out)

		if v == sim.VHarness {
			res.Harness = msg

			return res
		}

		if v != sim.VOK {
			c.Count("inconclusive_"+v.String(), 1)

			break
		}

		if v := adminAnomaly(out); v != nil {
			res.Trace = tr
			res.Violation = v

			return res
		}

		ok, why := m.step(o, out)
		if !ok {
			res.Trace = tr
			res.Violation = &sim.Violation{
				Prop: "C15", Class: "model-mismatch", Sig: "memidm " + o.K + " result",
				Msg: fmt.Sprintf("step %d %s returned %q; reference model: %s", i, o, out, why),
			}

			return res
		}

		if strings.HasPrefix(out, "ok") && (o.K[0] == 'A' || o.K[0] == 'D') {
			okMut++
		}

		// cross-invariants after every step: model and implementation agree on every name and id.
		for _, name := range idmNames {
			for _, k := range []string{"LookupGroup", "LookupUser"} {
				q := idmOp{K: k, Name: name}
				if ok, why := m.step(q, idmExec(idm, q)); !ok {
					res.Trace = tr
					res.Violation = &sim.Violation{
						Prop: "C15", Class: "model-mismatch", Sig: "memidm after " + o.K + " " + q.K,
						Msg: fmt.Sprintf("after step %d %s: %s = %q; %s", i, o, q, idmExec(idm, q), why),
					}

					return res
				}
			}
		}

		if v := idmInvariants(idm, ids); v != "" {
			res.Trace = tr
			res.Violation = &sim.Violation{Prop: "C15", Class: "invariant", Sig: "memidm invariant after " + o.K, Msg: v}

			return res
		}

		for id := range m.usedGids {
			q := idmOp{K: "LookupGroupId", ID: id}
			if ok, why := m.step(q, idmExec(idm, q)); !ok {
				res.Trace = tr
				res.Violation = &sim.Violation{
					Prop: "C15", Class: "model-mismatch", Sig: "memidm after " + o.K + " LookupGroupId",
					Msg: fmt.Sprintf("after step %d %s: %s = %q; %s", i, o, q, idmExec(idm, q), why),
				}

				return res
			}
		}

		for id := range m.usedUids {
			q := idmOp{K: "LookupUserId", ID: id}
			if ok, why := m.step(q, idmExec(idm, q)); !ok {
				res.Trace = tr
				res.Violation = &sim.Violation{
					Prop: "C15", Class: "model-mismatch", Sig: "memidm after " + o.K + " LookupUserId",
					Msg: fmt.Sprintf("after step %d %s: %s = %q; %s", i, o, q, idmExec(idm, q), why),
				}

				return res
			}
		}
	}

	res.Trace = tr
	res.TraceHash = sim.HashString(fmt.Sprint(tr.Programs))
	res.Nontrivial = okMut >= 2
	c.Count("sequential_runs", 1)

	return res
}
