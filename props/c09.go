package props

import (
	"fmt"
	"os"
	"strings"

	"github.com/avfs/avfs"
	"github.com/avfs/avfs/vfs/rofs"

	"verif/fsx"
	"verif/sim"
)

// C09 — a read-only file system never lets the underlying file system change.
type C09 struct{}

func (C09) ID() string { return "C09" }

func (C09) Describe() sim.Description {
	return sim.Description{
		Level: "exploration",
		Rule: "one case = a base (MemFS with symbolic and hard links, or OrefaFS) populated by a seeded direct history, then a seeded history of 5-40 calls of every VFS and File " +
			"method (OpenFile with every flag combination, handle methods on the files it returns, Sub followed by calls on the result, recursively) issued through rofs.New(base); " +
			"around every call the full base snapshot INCLUDING modification times must be identical, a mutating call must fail with a permission-class error, a read-only call " +
			"must return what the same call on the base returns (handle methods: on a twin handle opened on the base). non-trivial = at least 3 read-only calls succeeded and " +
			"at least 3 mutators were refused; distinct by hash of base history + calls",
		Explanation: "deterministic twin simulation (wrapper vs base); the property has no schedule or fault dimension, the simulator contributes the seeded world, workload, shrinking and replay",
		Assumptions: []string{"Chdir and SetUMask forwarded to the base are not flagged: working directory and umask are not in the statement's list of what must not change"},
		RealCode:    []string{"vfs/rofs", "vfs/memfs", "vfs/orefafs"},
		Stubs:       []string{"none"},
	}
}

func isFileMutator(k string) bool {
	switch k {
	case "FWrite", "FWriteAt", "FWriteString", "FTruncate", "FChmod", "FChown":
		return true
	}

	return false
}

func isVFSMutator(o fsx.Op) bool {
	switch o.K {
	case "Mkdir", "MkdirAll", "Remove", "RemoveAll", "Rename", "Link", "Symlink", "Truncate", "Chmod", "Chown", "Lchown", "Chtimes", "WriteFile",
		"Create", "CreateTemp", "MkdirTemp":
		return true
	case "OpenFile":
		return o.Flag != os.O_RDONLY
	}

	return false
}

func permissionClass(errClass string) bool {
	return errClass == "EACCES" || errClass == "EPERM"
}

type roPair struct {
	ro   *fsx.Env
	base *fsx.Env
	name string
}

func roOp(t *sim.Tape, uniq string) fsx.Op {
	kinds := []string{
		"Stat", "Lstat", "ReadDir", "ReadFile", "Readlink", "EvalSymlinks", "Getwd", "Glob", "WalkDir", "Open", "OpenFile", "FRead", "FReadAt", "FSeek",
		"FStat", "FReadDir", "FReaddirnames", "FClose", "FName", "Exists", "IsEmpty", "TempDir", "TempDir",
		"Mkdir", "MkdirAll", "Remove", "RemoveAll", "Rename", "Link", "Symlink", "Truncate", "Chmod", "Chown", "Lchown", "Chtimes", "WriteFile", "Create",
		"CreateTemp", "MkdirTemp", "FWrite", "FWriteAt", "FWriteString", "FTruncate", "FChmod", "FChown", "FSync", "Sub", "Chdir",
	}
	o := fsx.Op{K: kinds[t.Int(len(kinds))]}
	paths := []string{"/a", "/a/f", "/b/g", "/a/d", "/a/d/h", "/b/k", "/a/l", "/a/lb", "/a/lb/g", "/", "/a/x", "/b", "/tmp", "f", "a/f", "..", ""}
	p := func() string { return paths[t.Int(len(paths))] }

	switch o.K {
	case "Rename", "Link":
		o.P, o.Q = p(), p()
	case "Symlink":
		o.P, o.Q = "f", p()
	case "OpenFile":
		o.P = p()
		o.Flag = genFlags(t)

		if t.Chance(400) {
			o.Flag = os.O_RDONLY
		}

		o.Perm = 0o644
		o.H = t.Int(3)
	case "Open", "Create":
		o.P = p()
		o.H = t.Int(3)
	case "WriteFile":
		o.P, o.Data, o.Perm = p(), uniq, 0o644
	case "Truncate":
		o.P, o.Size = p(), int64(t.Int(4))
	case "Mkdir", "MkdirAll", "Chmod":
		o.P, o.Perm = p(), 0o700
	case "Chown", "Lchown":
		o.P, o.Uid, o.Gid = p(), 1000, 1000
	case "Chtimes":
		o.P, o.Size = p(), []int64{1000000, fsx.ZeroTime, 0, -1}[t.Int(4)]
	case "Glob":
		o.P = []string{"/a/*", "/*/*", "/a/d/?", "*", "/b/[gk]"}[t.Int(5)]
	case "WalkDir":
		o.P = p()
	case "CreateTemp", "MkdirTemp":
		o.P, o.Q, o.H = []string{"/a", "/tmp", ""}[t.Int(3)], "t*", t.Int(3)
	case "FRead", "FReadDir", "FReaddirnames":
		o.H, o.N = t.Int(3), []int{1, 2, 8, -1}[t.Int(4)]
	case "FReadAt":
		o.H, o.N, o.Size = t.Int(3), 4, int64(t.Int(5))
	case "FSeek":
		o.H, o.Size, o.N = t.Int(3), int64(t.Int(5)), t.Int(3)
	case "FWrite", "FWriteString":
		o.H, o.Data = t.Int(3), uniq
	case "FWriteAt":
		o.H, o.Data, o.Size = t.Int(3), uniq, int64(t.Int(4))
	case "FTruncate":
		o.H, o.Size = t.Int(3), int64(t.Int(3))
	case "FChmod":
		o.H, o.Perm = t.Int(3), 0o600
	case "FChown":
		o.H, o.Uid, o.Gid = t.Int(3), 1000, 1000
	case "FStat", "FClose", "FName", "FSync":
		o.H = t.Int(3)
	default:
		o.P = p()
	}

	return o
}

func (p C09) Run(c *sim.Ctx, t *sim.Tape) sim.RunResult {
	cfg := &concCfg{FS: []string{"memfs", "orefafs"}[t.Int(2)], HardLink: t.Chance(600)}
	cfg.Symlinks = cfg.FS == "memfs" && t.Chance(600)

	w := buildWorld(cfg, 1)
	baseEnv := w.envs[0]
	baseEnv.VFS = w.fs // the base itself, not a Sub view
	tr := seqTrace{FS: "rofs/" + cfg.FS}
	res := sim.RunResult{}

	// seeded direct history on the base.
	for i := 0; i < 6 && t.Chance(700); i++ {
		o := c05Op(t, cfg, fmt.Sprintf("<b%d>", i))
		if strings.HasPrefix(o.K, "F") || o.K == "OpenFile" || o.K == "CreateTemp" {
			continue
		}

		op := o
		_, v, _ := sim.Call1(func() string { return baseEnv.Exec(op).String() })

		if v != sim.VOK {
			return res
		}

		tr.Calls = append(tr.Calls, "base:"+o.String())
		tr.Outcomes = append(tr.Outcomes, "")
	}

	ro := rofs.New(w.fs)
	pairs := []*roPair{{ro: &fsx.Env{VFS: ro}, base: &fsx.Env{VFS: w.fs}, name: "ro"}}
	snapOpts := fsx.SnapOpts{Mtime: true, Tops: topNames, DirSize: true}
	okReads, refused := 0, 0

	fail := func(i int, o fsx.Op, class, sig, msg string) sim.RunResult {
		tr.Verdict = msg
		res.Trace = tr
		res.Violation = &sim.Violation{Prop: "C09", Class: class, Sig: "rofs/" + cfg.FS + " " + sig, Msg: fmt.Sprintf("call %d %s: %s", i, o, msg)}

		return res
	}

	for i := 0; i < 40 && (i < 5 || t.Chance(920)); i++ {
		pr := pairs[t.Int(len(pairs))]
		o := roOp(t, fmt.Sprintf("<%d>", i))
		before := fsx.Snapshot(w.fs, "/", snapOpts).String()

		var (
			out    fsx.Result
			subErr string
		)

		op := o
		_, v, msg := sim.Call1(func() string {
			if op.K == "Sub" {
				sub, err := pr.ro.VFS.Sub(op.P)
				subErr = fsx.ErrClass(err)

				if err == nil && sub != nil {
					bsub, berr := pr.base.VFS.Sub(op.P)
					if berr == nil && len(pairs) < 4 {
						pairs = append(pairs, &roPair{ro: &fsx.Env{VFS: sub}, base: &fsx.Env{VFS: bsub}, name: pr.name + ".Sub(" + op.P + ")"})
					}
				}

				return subErr
			}

			out = pr.ro.Exec(op)

			return out.String()
		})

		res.Steps++
		tr.Calls = append(tr.Calls, pr.name+":"+o.String())

		if o.K == "Sub" {
			tr.Outcomes = append(tr.Outcomes, subErr)
		} else {
			tr.Outcomes = append(tr.Outcomes, out.String())
		}

		if v == sim.VHarness {
			res.Harness = msg

			return res
		}

		if v != sim.VOK {
			c.Count("inconclusive_"+v.String(), 1)

			break
		}

		after := fsx.Snapshot(w.fs, "/", snapOpts).String()
		if after != before {
			return fail(i, o, "base-changed", o.K+" changed the base", fsx.Diff(before, after))
		}

		switch {
		case o.K == "Chdir":
			// the working directory is per view: mirror it on the twin view (same object for the top-level pair).
			if pr == pairs[0] {
				break // RoFS forwards Chdir to the very object the twin env uses.
			}

			if want := pr.base.Exec(o); want.String() != out.String() {
				return fail(i, o, "read-differs", "Chdir differs from the base", fmt.Sprintf("through RoFS %q, base %q", out.String(), want.String()))
			}
		case o.K == "Sub":
		case isVFSMutator(o):
			if !permissionClass(out.Err) {
				return fail(i, o, "mutator-not-refused", o.K+" returned "+out.Err+" instead of a permission error", out.String())
			}

			refused++

			if o.K == "OpenFile" || o.K == "Create" || o.K == "CreateTemp" {
				// the refused open cleared the slot on the RoFS side: drop the twin too.
				if o.H >= 0 && o.H < fsx.MaxHandles && pr.base.H[o.H] != nil {
					pr.base.H[o.H].Close()
					pr.base.H[o.H] = nil
				}
			}
		case isFileMutator(o.K):
			if out.Err == "nohandle" || out.Err == "invalid" || out.Err == "closed" {
				break
			}

			if !permissionClass(out.Err) {
				return fail(i, o, "mutator-not-refused", o.K+" returned "+out.Err+" instead of a permission error", out.String())
			}

			refused++
		default:
			// read-only call: same answer as the base (twin handles for handle methods).
			want := pr.base.Exec(o)
			if o.K == "FName" || o.K == "FSync" {
				break
			}

			if want.String() != out.String() {
				return fail(i, o, "read-differs", o.K+" differs from the base", fmt.Sprintf("through RoFS %q, base %q", out.String(), want.String()))
			}

			if out.Err == "ok" {
				okReads++
			}
		}
	}

	sim.Deactivate()

	for _, pr := range pairs {
		pr.ro.CloseAll()
		pr.base.CloseAll()
	}

	res.Trace = tr
	res.TraceHash = sim.HashString(fmt.Sprint(tr.FS, tr.Calls))
	res.Nontrivial = okReads >= 3 && refused >= 3
	c.Count("runs_"+cfg.FS, 1)
	c.Count("mutators_refused", int64(refused))
	c.Count("reads_compared", int64(okReads))
	c.Count("sub_views_followed", int64(len(pairs)-1))

	_ = avfs.OsLinux

	return res
}
