package props

import (
	"fmt"
	"io/fs"
	"regexp"
	"strings"

	"github.com/avfs/avfs"
	"github.com/avfs/avfs/idm/memidm"
	"github.com/avfs/avfs/vfs/memfs"

	"verif/fsx"
	"verif/sim"
)

// C11 — a Sub view shows exactly its subtree and keeps its own user, umask and cwd.
type C11 struct{}

func (C11) ID() string { return "C11" }

func (C11) Describe() sim.Description {
	return sim.Description{
		Level: "exploration",
		Rule: "one case = a MemFS parent and 1-3 views created with Sub at seeded directories (of '/', of a subdirectory, nested in another view), acting as clients whose calls " +
			"are interleaved at call granularity by the tape; each issues symlink-free absolute paths (with '.', '..' and doubled separators) and, once it has changed directory " +
			"through itself, relative paths; SetUser/SetUMask/Chdir are mixed in per client. Every call is mirrored on a twin MemFS driven through its root with the view's " +
			"directory prefixed (after clamping '..' at the view's root) under the acting client's user and umask. After every call: same outcome and data, parent tree = twin tree " +
			"(so a change is visible to the others at once and nothing outside the view's directory changed), and User/UMask/Getwd of every client are what that client itself set. " +
			"non-trivial = at least 3 calls changed the tree through at least 2 different clients and at least one setter ran; distinct by hash of views + calls",
		Explanation: "deterministic twin simulation; the interleaving dimension is the order of whole calls of parent and views (drawn from the tape), the 'fault' dimension the per-view setters at arbitrary instants",
		Assumptions: []string{"the twin is the same implementation driven without views, so sequential defects cancel out (C01's)"},
		RealCode:    []string{"vfs/memfs (Sub, searchNode root handling)", "curdir.go, curuser.go, umask.go", "idm/memidm"},
		Stubs:       []string{"none"},
	}
}

type viewActor struct {
	name  string
	env   *fsx.Env
	root  string // directory of the view in the parent's namespace ("" for the parent itself)
	uid   int
	umask uint32
	cwd   string // as observed / set through this client
	chdir bool   // the client has changed directory through itself
}

func c11World() (avfs.VFS, *memidm.MemIdm, []avfs.UserReader) {
	idm := memidm.NewWithOptions(&memidm.Options{OSType: avfs.OsLinux})
	_, _ = idm.AddGroup("g1")
	u1, _ := idm.AddUser("u1", "g1")
	u2, _ := idm.AddUser("u2", "g1")
	v := memfs.NewWithOptions(&memfs.Options{OSType: avfs.OsLinux, Idm: idm})
	_ = v.SetUMask(0o022)

	for _, d := range []string{"/a", "/a/d", "/a/d/e", "/b", "/a/p"} {
		_ = v.Mkdir(d, 0o777)
		_ = v.Chmod(d, 0o777)
	}

	_ = v.Chmod("/a/p", 0o700)
	_ = v.WriteFile("/a/f", []byte("AAAA"), 0o666)
	_ = v.WriteFile("/a/d/h", []byte("H"), 0o666)
	_ = v.WriteFile("/b/g", []byte("BB"), 0o666)
	_ = v.WriteFile("/a/d/e/k", []byte("K"), 0o600)
	_ = v.Chmod("/a/f", 0o666)
	_ = v.Chmod("/a/d/h", 0o666)
	_ = v.Chmod("/b/g", 0o666)

	return v, idm, []avfs.UserReader{idm.AdminUser(), u1, u2}
}

var c11Parts = []string{"a", "d", "e", "f", "h", "b", "g", "x", "y", "..", ".", "p", "tmp"} //nolint:gochecknoglobals // alphabet.

func c11Path(t *sim.Tape, relative bool) string {
	n := t.Range(1, 3)
	parts := make([]string, 0, n)

	for i := 0; i < n; i++ {
		parts = append(parts, c11Parts[t.Weighted([]int{4, 5, 2, 4, 3, 2, 2, 5, 2, 3, 1, 1, 1})])
	}

	p := strings.Join(parts, "/")
	if relative {
		return p
	}

	if t.Chance(100) {
		return "//" + p
	}

	return "/" + p
}

func c11Op(t *sim.Tape, a *viewActor, uniq string) fsx.Op {
	kinds := []string{
		"Stat", "Lstat", "ReadDir", "ReadFile", "WriteFile", "Mkdir", "MkdirAll", "Remove", "RemoveAll", "Rename", "Link", "Truncate", "Chmod", "OpenFile",
		"FWrite", "FRead", "FClose", "Chdir", "Getwd", "SetUser", "SetUMask", "Exists",
	}
	weights := []int{3, 2, 3, 3, 5, 4, 2, 3, 2, 4, 2, 1, 2, 3, 2, 1, 1, 4, 2, 3, 2, 1}
	o := fsx.Op{K: kinds[t.Weighted(weights)]}
	path := func() string { return c11Path(t, a.chdir && t.Chance(400)) }

	switch o.K {
	case "Rename", "Link":
		o.P, o.Q = path(), path()

		if o.K == "Rename" && t.Chance(80) {
			o.Q = []string{"/", "/d/..", "."}[t.Int(3)] // the root of the view as new name
		}
	case "WriteFile":
		o.P, o.Data, o.Perm = path(), uniq, []uint32{0o666, 0o640}[t.Int(2)]
	case "Mkdir", "MkdirAll":
		o.P, o.Perm = path(), []uint32{0o777, 0o750}[t.Int(2)]
	case "Chmod":
		o.P, o.Perm = path(), []uint32{0o777, 0o700, 0o755, 0o000}[t.Int(4)]
	case "Truncate":
		o.P, o.Size = path(), int64(t.Int(4))
	case "OpenFile":
		o.P, o.Flag, o.Perm, o.H = path(), genFlags(t), 0o644, t.Int(2)
	case "FWrite":
		o.H, o.Data = t.Int(2), uniq
	case "FRead":
		o.H, o.N = t.Int(2), 8
	case "FClose":
		o.H = t.Int(2)
	case "SetUser":
		o.Uid = t.Int(3) // index into the user table
	case "SetUMask":
		o.Perm = []uint32{0o022, 0o077, 0o002, 0o027}[t.Int(4)]
	case "Getwd":
	default:
		o.P = path()
	}

	return o
}

// toTwin maps a path given to a view to the path in the parent's namespace.
func (a *viewActor) toTwin(p string) string {
	if p == "" {
		return p
	}

	if !strings.HasPrefix(p, "/") {
		p = a.cwd + "/" + p
	}

	return cleanAbs(a.root + cleanAbs(p))
}

func (p C11) Run(c *sim.Ctx, t *sim.Tape) sim.RunResult {
	parent, _, users := c11World()
	twin, _, tusers := c11World()
	tr := seqTrace{}
	res := sim.RunResult{}

	// observers: administrator views of '/' taken before anything else, used only for snapshots.
	obsP, errP := parent.Sub("/")
	obsT, errT := twin.Sub("/")

	if errP != nil || errT != nil {
		return sim.RunResult{Harness: "cannot create observer views"}
	}

	actors := []*viewActor{{name: "parent", env: &fsx.Env{VFS: parent}, root: "", uid: 0, umask: 0o022, cwd: "/"}}
	twinEnvs := map[string]*fsx.Env{"parent": {VFS: twin}}

	// views
	nv := t.Range(1, 3)
	for i := 0; i < nv; i++ {
		from := actors[t.Int(len(actors))]
		dir := []string{"/", "/a", "/a/d", "/d", "/b", "/a/d/e", "/e"}[t.Int(7)]
		sub, err := from.env.VFS.Sub(dir)

		if err != nil {
			continue
		}

		wd, _ := sub.Getwd()
		a := &viewActor{
			name: fmt.Sprintf("view%d=%s.Sub(%s)", i+1, from.name, dir), env: &fsx.Env{VFS: sub},
			root: strings.TrimSuffix(cleanAbs(from.root+cleanAbs(dir)), "/"), uid: from.uid, umask: from.umask, cwd: wd,
		}

		if a.root == "/" {
			a.root = ""
		}

		actors = append(actors, a)
		twinEnvs[a.name] = &fsx.Env{VFS: twin}
		tr.Calls = append(tr.Calls, "create "+a.name)
		tr.Outcomes = append(tr.Outcomes, "root="+a.root)
	}

	if len(actors) < 2 {
		return res
	}

	fail := func(i int, who string, o fsx.Op, class, sig, msg string) sim.RunResult {
		tr.Verdict = msg
		res.Trace = tr
		res.Violation = &sim.Violation{Prop: "C11", Class: class, Sig: sig, Msg: fmt.Sprintf("call %d %s:%s: %s", i, who, o, msg)}

		return res
	}

	okMut := map[string]int{}
	setters := 0

	for i := 0; i < 40 && (i < 5 || t.Chance(930)); i++ {
		a := actors[t.Int(len(actors))]
		o := c11Op(t, a, fmt.Sprintf("<%d>", i))
		te := twinEnvs[a.name]

		// the statement presumes that the directory of a view stays where it is: a call that would remove or
		// move the directory of a view (or one of its ancestors) is replaced by a query.
		if o.K == "Remove" || o.K == "RemoveAll" || o.K == "Rename" {
			for _, x := range actors {
				for k, pth := range []string{a.toTwin(o.P), a.toTwin(o.Q)} {
					if k == 1 && o.K == "Rename" && pth == x.root {
						continue // a directory is never replaced: renaming onto the directory of a view fails and moves nothing
					}

					if pth != "" && x.root != "" && (x.root == pth || strings.HasPrefix(x.root, strings.TrimSuffix(pth, "/")+"/")) {
						o = fsx.Op{K: "Stat", P: o.P}
					}
				}
			}
		}

		if o.K == "Rename" && a.toTwin(o.P) == a.toTwin(o.Q) {
			// os.Rename compares its two arguments as strings before anything else: the twin gets other strings.
			o = fsx.Op{K: "Stat", P: o.P}
		}

		// a view does not look at the directories above its own (like a chroot), the prefixed path does:
		// the permissions of the proper ancestors of a view's directory are left alone.
		if o.K == "Chmod" {
			pth := a.toTwin(o.P)
			for _, x := range actors {
				if x.root != "" && strings.HasPrefix(x.root, strings.TrimSuffix(pth, "/")+"/") {
					o = fsx.Op{K: "Stat", P: o.P}
				}
			}
		}

		if o.K == "SetUser" {
			a.env.Users = func(int) avfs.UserReader { return users[o.Uid] }
		}

		var got fsx.Result

		op := o
		_, v, msg := sim.Call1(func() string {
			got = a.env.Exec(op)

			return got.String()
		})

		res.Steps++
		tr.Calls = append(tr.Calls, a.name+": "+o.String())
		tr.Outcomes = append(tr.Outcomes, got.String())

		if v == sim.VHarness {
			res.Harness = msg

			return res
		}

		if v != sim.VOK {
			c.Count("inconclusive_"+v.String(), 1)

			break
		}

		// mirror on the twin
		switch o.K {
		case "SetUser":
			if got.Err == "ok" {
				a.uid = users[o.Uid].Uid()
				setters++
			}
		case "SetUMask":
			if got.Err == "ok" {
				a.umask = o.Perm
				setters++
			}
		case "Getwd":
			if got.Data != a.cwd {
				return fail(i, a.name, o, "setter-leak", "Getwd of a client is not what that client set",
					fmt.Sprintf("Getwd = %q, the client itself last set %q", got.Data, a.cwd))
			}
		default:
			// act on the twin as this client: its user, its umask, prefixed absolute paths.
			for _, u := range tusers {
				if u.Uid() == a.uid {
					_ = twin.SetUser(u)
				}
			}

			_ = twin.SetUMask(avfsMode(a.umask))
			top := o
			top.P = a.toTwin(o.P)
			top.Q = a.toTwin(o.Q)

			if o.K == "Chdir" {
				// the twin has one working directory only: check the target and track the client's cwd in the harness.
				top = fsx.Op{K: "IsDir", P: top.P}
			}

			var want fsx.Result

			_, v2, _ := sim.Call1(func() string {
				want = te.Exec(top)

				return want.String()
			})

			if v2 != sim.VOK {
				c.Count("twin_inconclusive", 1)

				res.Trace = tr

				return res
			}

			if o.K == "Chdir" {
				okTwin := want.Err == "ok" && want.Data == "true"
				if (got.Err == "ok") != okTwin && !(want.Err == "ok" && want.Data == "false" && got.Err == "ENOTDIR") {
					// permission on the target directory is judged by Chdir itself; compare only existence/type here.
					if !(got.Err == "EACCES" && okTwin && a.uid != 0) {
						return fail(i, a.name, o, "outcome-differs", "Chdir differs from the prefixed path on the twin",
							fmt.Sprintf("view %q, twin IsDir(%s) %q", got, top.P, want))
					}
				}

				if got.Err == "ok" {
					if !strings.HasPrefix(o.P, "/") {
						a.cwd = cleanAbs(a.cwd + "/" + o.P)
					} else {
						a.cwd = cleanAbs(o.P)
					}

					a.chdir = true
					setters++
				}
			} else if (o.K == "Stat" || o.K == "Lstat") && got.Err == "ok" && want.Err == "ok" && top.P == cleanAbs(a.root+"/") && a.root != "" {
				// the directory of the view itself: it is the root of the view (empty name), a named directory for the twin.
				if statRest(got.Data) != statRest(want.Data) {
					return fail(i, a.name, o, "outcome-differs", o.K+" of the view's own directory differs from the twin",
						fmt.Sprintf("client %q, twin %s %q", got, top, want))
				}
			} else if (o.K == "Stat" || o.K == "Lstat") && got.Err == "ok" && want.Err == "ok" && cleanAbs(o.P) != o.P {
				// the reported name is the last element of the string given: for an unclean or relative path the
				// twin's prefixed clean path gives another string; the attributes must agree.
				if statRest(got.Data) != statRest(want.Data) {
					return fail(i, a.name, o, "outcome-differs", o.K+" through a view differs from the prefixed call on the twin",
						fmt.Sprintf("client %q, twin %s %q", got, top, want))
				}
			} else if got.String() != want.String() {
				return fail(i, a.name, o, "outcome-differs", o.K+" through a view differs from the prefixed call on the twin",
					fmt.Sprintf("client %q, twin %s %q", got, top, want))
			}

			if got.Err == "ok" && isMutator(o.K) {
				okMut[a.name]++
			}
		}

		if o.K == "RemoveAll" && got.Err != "ok" {
			// a RemoveAll that fails removes what it can, in an order that is not specified: both sides are
			// brought back in step by removing the rest as administrator.
			if tp := a.toTwin(o.P); tp != "" && tp != "/" {
				_ = obsP.RemoveAll(tp)
				_ = obsT.RemoveAll(tp)
				c.Count("resync_after_failed_removeall", 1)
			}
		}

		// trees: parent and twin must be identical (visibility + confinement).
		sp := fsx.Snapshot(obsP, "/", fsx.SnapOpts{}).String()
		st := fsx.Snapshot(obsT, "/", fsx.SnapOpts{}).String()

		if sp != st {
			return fail(i, a.name, o, "tree-differs", o.K+" left the parent tree different from the twin", fsx.Diff(st, sp))
		}

		// per-client state of every client is what that client set.
		for _, x := range actors {
			if u := x.env.VFS.User(); u == nil || u.Uid() != x.uid {
				return fail(i, a.name, o, "setter-leak", "user of a client changed by another client's call",
					fmt.Sprintf("%s now runs as uid %d, it set %d", x.name, x.env.VFS.User().Uid(), x.uid))
			}

			if m := uint32(x.env.VFS.UMask()); m != x.umask {
				return fail(i, a.name, o, "setter-leak", "umask of a client changed by another client's call",
					fmt.Sprintf("%s now has umask %#o, it set %#o", x.name, m, x.umask))
			}

			if wd, _ := x.env.VFS.Getwd(); wd != x.cwd {
				return fail(i, a.name, o, "setter-leak", "working directory of a client changed by another client's call",
					fmt.Sprintf("%s is now in %q, it set %q", x.name, wd, x.cwd))
			}
		}
	}

	sim.Deactivate()

	for _, a := range actors {
		a.env.CloseAll()
	}

	for _, e := range twinEnvs {
		e.CloseAll()
	}

	used := 0
	total := 0

	for _, n := range okMut {
		if n > 0 {
			used++
		}

		total += n
	}

	res.Trace = tr
	res.TraceHash = sim.HashString(fmt.Sprint(tr.Calls))
	res.Nontrivial = total >= 3 && used >= 2 && setters >= 1
	c.Count("views_created", int64(len(actors)-1))
	c.Count("setter_calls", int64(setters))

	return res
}

func avfsMode(m uint32) fs.FileMode { return fs.FileMode(m) }

var statRestRE = regexp.MustCompile(`(?:^| )([dfl] [0-7]{4}.*)$`) //nolint:gochecknoglobals // parser.

// statRest returns the attributes of an InfoString without the name.
func statRest(data string) string {
	if m := statRestRE.FindStringSubmatch(data); m != nil {
		return m[1]
	}

	return data
}
