package props

import (
	"errors"
	"fmt"
	"io/fs"
	"os"
	"strings"

	"github.com/avfs/avfs"
	"github.com/avfs/avfs/vfs/failfs"

	"verif/fsx"
	"verif/sim"
)

// C12 — FailFS is transparent unless told to fail, and an injected failure has no effect.
type C12 struct{}

func (C12) ID() string { return "C12" }

func (C12) Describe() sim.Description {
	return sim.Description{
		Level: "fault_enumeration",
		Rule: "one case = one (history, failure plan) execution. A history is 5-25 seeded VFS and File calls (composites, handle calls, Sub followed by calls on the result) " +
			"on FailFS over MemFS or OrefaFS. Plans, enumerated exhaustively per history: (0) no failure function installed: every outcome and the final tree equal the same " +
			"history on a twin base; (F,k) for every primitive F the history consults and every k up to its number of invocations: 'fail the k-th F with error E': the call in which it " +
			"fires returns an error (exactly E when the call is that primitive), the base snapshot with modification times is unchanged around a failed primitive call, and the rest of " +
			"the history equals the twin on which that call was skipped; (RO) the supplied ReadOnlyFunc: the base snapshot with modification times never changes. " +
			"non-trivial = the plan's fault fired (plan 0 / RO: at least 3 calls succeeded); distinct by hash of history + plan",
		Explanation: "deterministic simulation with FailFS (the repository's own fault injector) driven from the tape: exhaustive in (F,k) per history, sampled over histories",
		Assumptions: []string{
			"when the fault fires inside a composite (Create, WriteFile, ReadFile, ReadDir, MkdirTemp, CreateTemp) the earlier primitives of that composite have had their effect: the run is cut after checking that the composite failed",
			"Glob ignores I/O errors by contract: a fault inside Glob is only required not to panic",
		},
		RealCode: []string{"vfs/failfs", "vfs/memfs", "vfs/orefafs", "vfs.go composites"},
		Stubs:    []string{"none (FailFS itself is the fault injector)"},
	}
}

var errInjected = errors.New("injected fault E") //nolint:gochecknoglobals // sentinel.

type failPair struct {
	fe *fsx.Env // through FailFS
	te *fsx.Env // twin, direct
}

type c12Call struct {
	Env int
	Op  fsx.Op
}

func c12Gen(t *sim.Tape) []c12Call {
	kinds := []string{
		"Mkdir", "MkdirAll", "Remove", "RemoveAll", "Rename", "Link", "Symlink", "OpenFile", "Create", "Open", "WriteFile", "ReadFile", "ReadDir", "Truncate",
		"Chmod", "Chown", "Lchown", "Chtimes", "Chdir", "Getwd", "Stat", "Lstat", "Readlink", "EvalSymlinks", "Abs", "Glob", "WalkDir", "CreateTemp", "MkdirTemp",
		"FRead", "FReadAt", "FWrite", "FWriteAt", "FSeek", "FTruncate", "FStat", "FSync", "FChmod", "FChown", "FChdir", "FClose", "FReadDir", "FReaddirnames", "Sub",
	}
	paths := []string{"/a", "/a/f", "/b/g", "/a/d", "/a/d/h", "/b/k", "/a/x", "/b/x", "/a/l", "/b", "/tmp", "/a/d/x"}

	var calls []c12Call

	nenv := 1

	for i := 0; i < 25 && (i < 5 || t.Chance(900)); i++ {
		o := fsx.Op{K: kinds[t.Int(len(kinds))]}
		p := func() string { return paths[t.Int(len(paths))] }
		uniq := fmt.Sprintf("<%d>", i)

		switch o.K {
		case "Rename", "Link":
			o.P, o.Q = p(), p()
		case "Symlink":
			o.P, o.Q = "f", p()
		case "OpenFile":
			o.P, o.Flag, o.Perm, o.H = p(), genFlags(t), 0o644, t.Int(3)
		case "Create", "Open":
			o.P, o.H = p(), t.Int(3)
		case "WriteFile":
			o.P, o.Data, o.Perm = p(), uniq, 0o644

			if t.Chance(250) {
				// larger than the buffers the composites start with (512 bytes in ReadFile, 32 KiB in the copy helpers).
				o.Data = uniq + strings.Repeat("x", []int{600, 40000}[t.Int(2)])
			}
		case "Truncate":
			o.P, o.Size = p(), int64(t.Int(5))
		case "Mkdir", "MkdirAll", "Chmod":
			o.P, o.Perm = p(), 0o750
		case "Chown", "Lchown":
			o.P, o.Uid, o.Gid = p(), 1000, 1000
		case "Chtimes":
			o.P, o.Size = p(), 1000000
		case "Glob":
			o.P = []string{"/a/*", "/*/*", "/a/d/?"}[t.Int(3)]
		case "CreateTemp", "MkdirTemp":
			o.P, o.Q, o.H = []string{"/a", "/tmp"}[t.Int(2)], "t*", t.Int(3)
		case "FRead", "FReadDir", "FReaddirnames":
			o.H, o.N = t.Int(3), []int{1, 8, -1}[t.Int(3)]
		case "FReadAt":
			o.H, o.N, o.Size = t.Int(3), 4, int64(t.Int(4))
		case "FWrite":
			o.H, o.Data = t.Int(3), uniq
		case "FWriteAt":
			o.H, o.Data, o.Size = t.Int(3), uniq, int64(t.Int(4))
		case "FSeek":
			o.H, o.Size, o.N = t.Int(3), int64(t.Int(4)), t.Int(3)
		case "FTruncate":
			o.H, o.Size = t.Int(3), int64(t.Int(3))
		case "FChmod":
			o.H, o.Perm = t.Int(3), 0o600
		case "FChown":
			o.H, o.Uid, o.Gid = t.Int(3), 1000, 1000
		case "FStat", "FSync", "FChdir", "FClose":
			o.H = t.Int(3)
		case "Sub":
			o.P = []string{"/a", "/a/d", "/"}[t.Int(3)]
		case "Getwd":
		default:
			o.P = p()
		}

		c := c12Call{Env: t.Int(nenv), Op: o}
		if o.K == "Sub" && nenv < 3 {
			nenv++ // the following calls may address the sub file system (when Sub succeeded)
		}

		calls = append(calls, c)
	}

	return calls
}

func isComposite(k string) bool {
	switch k {
	case "Create", "WriteFile", "ReadFile", "ReadDir", "MkdirTemp", "CreateTemp", "Glob", "WalkDir", "Open":
		return true
	}

	return false
}

type c12Plan struct {
	Kind string     // "none", "fail", "readonly", "record"
	Fn   avfs.FnVFS // fail: primitive
	K    int        // fail: k-th invocation (1-based)
	Err  int        // fail: which error is injected (index into c12Errors)
}

// c12Errors: what a failure function may return - a private error, and errors of the classes the library itself
// tests for (a composite must not mistake an injected error for a condition it knows how to handle).
var c12Errors = []error{errInjected, avfs.ErrNoSuchFileOrDir, avfs.ErrPermDenied, avfs.ErrFileExists} //nolint:gochecknoglobals // fault domain.

func (p c12Plan) String() string {
	if p.Kind == "fail" {
		return fmt.Sprintf("fail invocation %d of %s with %q", p.K, p.Fn, c12Errors[p.Err%len(c12Errors)])
	}

	return p.Kind
}

type c12Result struct {
	violation *sim.Violation
	harness   string
	fired     bool
	okCalls   int
	invoked   []avfs.FnVFS // record plan: primitives in invocation order
	outcomes  []string
	steps     int
}

// c12Exec runs the history under one plan.
func c12Exec(kind string, cfg *concCfg, calls []c12Call, plan c12Plan) c12Result {
	var r c12Result

	wa := buildWorld(cfg, 1)
	wb := buildWorld(cfg, 1)
	ffs := failfs.New(wa.fs)
	counts := map[avfs.FnVFS]int{}
	firedNow := false

	switch plan.Kind {
	case "record", "fail":
		_ = ffs.SetFailFunc(func(_ avfs.VFSBase, fn avfs.FnVFS, _ *failfs.FailParam) error {
			counts[fn]++
			r.invoked = append(r.invoked, fn)

			if plan.Kind == "fail" && fn == plan.Fn && counts[fn] == plan.K {
				firedNow = true
				r.fired = true

				return c12Errors[plan.Err%len(c12Errors)]
			}

			return nil
		})
	case "readonly":
		_ = ffs.SetFailFunc(failfs.ReadOnlyFunc)
	}

	pairs := []*failPair{{fe: &fsx.Env{VFS: ffs, NoProbe: true}, te: &fsx.Env{VFS: wb.fs, NoProbe: true}}}
	snapOpts := fsx.SnapOpts{Mtime: true, Tops: topNames}

	viol := func(i int, c c12Call, class, sig, msg string) c12Result {
		r.violation = &sim.Violation{
			Prop: "C12", Class: class, Sig: "failfs/" + kind + " " + sig,
			Msg: fmt.Sprintf("plan [%s], call %d env%d:%s: %s", plan, i, c.Env, c.Op, msg),
		}

		return r
	}

	for i, c := range calls {
		if c.Env >= len(pairs) {
			c.Env = 0
		}

		pr := pairs[c.Env]

		var (
			before string
			got    fsx.Result
			subErr string
			newSub *failPair
		)

		needSnap := plan.Kind == "readonly" || plan.Kind == "fail"
		if needSnap {
			before = fsx.Snapshot(wa.fs, "/", snapOpts).String()
		}

		firedNow = false
		consultedBefore := len(r.invoked)
		op := c.Op
		_, v, msg := sim.Call1As(0, i, 1000, func() string {
			if op.K == "Sub" {
				sub, err := pr.fe.VFS.Sub(op.P)
				subErr = fsx.ErrClass(err)

				if err == nil && sub != nil {
					newSub = &failPair{fe: &fsx.Env{VFS: sub, NoProbe: true}}
				}

				got = fsx.Result{Err: subErr}

				return subErr
			}

			got = pr.fe.Exec(op)

			return got.String()
		})

		r.steps++
		r.outcomes = append(r.outcomes, got.String())

		if v == sim.VHarness {
			r.harness = msg

			return r
		}

		if v != sim.VOK {
			// the call does not return (or panics) under this plan: C07's verdict, reported from where it is met.
			r.violation = &sim.Violation{
				Prop: "C07", Class: v.String(), Sig: "failfs/" + kind + " " + v.String() + " in " + c.Op.K + " under an injected failure of " + plan.Fn.String(),
				Msg: fmt.Sprintf("plan [%s], call %d env%d:%s: %s %s", plan, i, c.Env, c.Op, v, msg),
			}

			return r
		}

		if plan.Kind == "record" && len(r.invoked) == consultedBefore && op.K != "FName" && op.K != "Glob" &&
			got.Err != "nohandle" && got.Err != "invalid" {
			return viol(i, c, "not-consulted", c.Op.K+" ran without consulting the failure function", got.String())
		}

		if plan.Kind == "readonly" {
			if after := fsx.Snapshot(wa.fs, "/", snapOpts).String(); after != before {
				return viol(i, c, "readonly-changed", c.Op.K+" changed the base under ReadOnlyFunc", fsx.Diff(before, after))
			}

			if got.Err == "ok" {
				r.okCalls++
			}

			continue
		}

		if firedNow {
			// the call in which the fault fired.
			if c.Op.K == "Glob" {
				return r
			}

			if got.Err == "ok" {
				if isComposite(c.Op.K) && !compositeMustFail(c.Op.K, plan.Fn) {
					return r // e.g. the Close of a read-only composite: its error is dropped as in package os
				}

				if (c.Op.K == "MkdirTemp" || c.Op.K == "CreateTemp") && errors.Is(c12Errors[plan.Err%len(c12Errors)], fs.ErrExist) {
					return r // "exists" is the one answer these two retry on, with another name (as package os does)
				}

				return viol(i, c, "fault-swallowed", c.Op.K+" succeeded although "+plan.Fn.String()+" was made to fail", got.String())
			}

			if !isComposite(c.Op.K) {
				if got.Err != fsx.ErrClass(c12Errors[plan.Err%len(c12Errors)]) {
					return viol(i, c, "wrong-error", c.Op.K+" did not return exactly the injected error", got.String())
				}

				if after := fsx.Snapshot(wa.fs, "/", snapOpts).String(); after != before {
					return viol(i, c, "fault-had-effect", c.Op.K+" failed by injection but changed the base", fsx.Diff(before, after))
				}

				// the twin skips this call: the failed call must have had no effect at all (handles included).
				if (c.Op.K == "OpenFile") && c.Op.H >= 0 && c.Op.H < fsx.MaxHandles {
					// an open that fails clears the slot on the FailFS side; mirror it.
					if f := pr.te.H[c.Op.H]; f != nil {
						f.Close()
						pr.te.H[c.Op.H] = nil
					}
				}

				continue
			}

			return r // composite: earlier primitives had their effect, the histories diverge legitimately
		}

		// not (or not yet / no longer) faulted: must equal the twin.
		var want fsx.Result

		_, v2, _ := sim.Call1As(0, i, 1000, func() string {
			if op.K == "Sub" {
				sub, err := pr.te.VFS.Sub(op.P)
				want = fsx.Result{Err: fsx.ErrClass(err)}

				if err == nil && sub != nil && newSub != nil {
					newSub.te = &fsx.Env{VFS: sub, NoProbe: true}
				}

				return want.Err
			}

			want = pr.te.Exec(op)

			return want.String()
		})

		if v2 != sim.VOK {
			return r
		}

		if got.String() != want.String() {
			return viol(i, c, "not-transparent", c.Op.K+" through FailFS differs from the base", fmt.Sprintf("FailFS %q, base %q", got, want))
		}

		if newSub != nil && newSub.te != nil && len(pairs) < 3 {
			pairs = append(pairs, newSub)
		}

		if got.Err == "ok" {
			r.okCalls++
		}
	}

	if plan.Kind != "readonly" {
		sa := fsx.Snapshot(wa.fs, "/", fsx.SnapOpts{Tops: topNames}).String()
		sb := fsx.Snapshot(wb.fs, "/", fsx.SnapOpts{Tops: topNames}).String()

		if sa != sb {
			last := c12Call{}
			if len(calls) > 0 {
				last = calls[len(calls)-1]
			}

			return viol(len(calls), last, "not-transparent", "final trees differ", fsx.Diff(sb, sa))
		}
	}

	for _, pr := range pairs {
		pr.fe.CloseAll()

		if pr.te != nil {
			pr.te.CloseAll()
		}
	}

	return r
}

type c12Trace struct {
	FS       string   `json:"fs"`
	Plan     string   `json:"plan"`
	Calls    []string `json:"calls"`
	Outcomes []string `json:"outcomes"`
	Plans    int      `json:"plans_enumerated"`
}

// runStacked: a FailFS stacked on a FailFS. Each layer keeps its own failure function: what the inner one
// refuses stays refused whatever is installed, before or afterwards, on the outer one, and the other way round.
func (p C12) runStacked(c *sim.Ctx, t *sim.Tape, kind string, cfg *concCfg) sim.RunResult {
	res := sim.RunResult{}
	w := buildWorld(cfg, 1)
	inner := failfs.New(w.fs)
	outer := failfs.New(inner)
	tr := c12Trace{FS: "failfs/failfs/" + kind}
	innerRO := t.Chance(500)

	// when each layer gets its function: before or after the stack is built, in either order.
	steps := [][2]string{{"inner", "before"}, {"outer", "after"}}
	if t.Chance(500) {
		steps = [][2]string{{"outer", "after"}, {"inner", "after"}}
	}

	for _, st := range steps {
		fn := failfs.FailFunc(failfs.OkFunc)
		if (st[0] == "inner") == innerRO {
			fn = failfs.ReadOnlyFunc
		}

		if st[0] == "inner" {
			_ = inner.SetFailFunc(fn)
		} else {
			_ = outer.SetFailFunc(fn)
		}

		tr.Calls = append(tr.Calls, fmt.Sprintf("SetFailFunc(%s: read-only=%v)", st[0], (st[0] == "inner") == innerRO))
	}

	env := &fsx.Env{VFS: outer, NoProbe: true}
	before := fsx.Snapshot(w.fs, "/", fsx.SnapOpts{Mtime: true, Tops: topNames}).String()

	for i := 0; i < 8; i++ {
		o := []fsx.Op{
			{K: "Mkdir", P: "/a/n", Perm: 0o755}, {K: "WriteFile", P: "/a/f", Data: "zz", Perm: 0o644}, {K: "Remove", P: "/b/g"},
			{K: "Rename", P: "/a/f", Q: "/a/r"}, {K: "Truncate", P: "/a/f", Size: 1}, {K: "Chmod", P: "/a/f", Perm: 0o600},
			{K: "OpenFile", P: "/a/new", Flag: os.O_WRONLY | os.O_CREATE, Perm: 0o644, H: 0}, {K: "RemoveAll", P: "/a/d"},
		}[t.Int(8)]

		var got fsx.Result

		op := o
		_, v, msg := sim.Call1As(0, i, 1000, func() string { got = env.Exec(op); return got.String() })

		tr.Calls = append(tr.Calls, o.String())
		res.Steps++

		if v == sim.VHarness {
			res.Harness = msg

			return res
		}

		after := fsx.Snapshot(w.fs, "/", fsx.SnapOpts{Mtime: true, Tops: topNames}).String()

		if v != sim.VOK || got.Err == "ok" || after != before {
			res.Trace = tr
			res.Violation = &sim.Violation{
				Prop: "C12", Class: "stacked", Sig: "failfs/failfs/" + kind + " " + o.K + " is not refused although one layer of the stack is read-only",
				Msg: fmt.Sprintf("read-only layer: inner=%v; call %d %s returned %q (%s); base %s", innerRO, i, o, got, v, map[bool]string{true: "unchanged", false: "changed:\n" + fsx.Diff(before, after)}[after == before]),
			}

			return res
		}
	}

	sim.Deactivate()
	env.CloseAll()

	res.Trace = tr
	res.TraceHash = sim.HashString(fmt.Sprint(tr.FS, tr.Calls))
	res.Nontrivial = true
	c.Count("stacked_failfs_runs", 1)

	return res
}

func (p C12) Run(c *sim.Ctx, t *sim.Tape) sim.RunResult {
	kind := []string{"memfs", "orefafs"}[t.Int(2)]
	cfg := &concCfg{FS: kind, HardLink: t.Chance(500)}
	cfg.Symlinks = kind == "memfs" && t.Chance(500)

	if t.Chance(60) {
		return p.runStacked(c, t, kind, cfg)
	}
	calls := c12Gen(t)
	res := sim.RunResult{}
	tr := c12Trace{FS: "failfs/" + kind}

	for _, cl := range calls {
		tr.Calls = append(tr.Calls, fmt.Sprintf("env%d:%s", cl.Env, cl.Op))
	}

	finish := func(r c12Result, plan c12Plan) bool {
		res.Steps += r.steps

		if r.harness != "" {
			res.Harness = r.harness

			return true
		}

		if r.violation != nil {
			tr.Plan = plan.String()
			tr.Outcomes = r.outcomes
			res.Trace = tr
			res.Violation = r.violation

			return true
		}

		return false
	}

	// plan 0: no failure function installed.
	r0 := c12Exec(kind, cfg, calls, c12Plan{Kind: "none"})
	c.Count("plan_executions", 1)

	if finish(r0, c12Plan{Kind: "none"}) {
		return res
	}

	// read-only plan.
	rro := c12Exec(kind, cfg, calls, c12Plan{Kind: "readonly"})
	c.Count("plan_executions", 1)

	if finish(rro, c12Plan{Kind: "readonly"}) {
		return res
	}

	// recording pass, then every (F,k).
	rec := c12Exec(kind, cfg, calls, c12Plan{Kind: "record"})
	c.Count("plan_executions", 1)

	if finish(rec, c12Plan{Kind: "record"}) {
		return res
	}

	counts := map[avfs.FnVFS]int{}

	var plans []c12Plan

	// which error each plan injects: a rotation over the fault domain, started at a drawn point.
	errBase := t.Int(len(c12Errors))

	for _, fn := range rec.invoked {
		counts[fn]++
		plans = append(plans, c12Plan{Kind: "fail", Fn: fn, K: counts[fn], Err: errBase + len(plans)})
	}

	fired := 0

	for _, pl := range plans {
		r := c12Exec(kind, cfg, calls, pl)
		c.Count("plan_executions", 1)
		c.Count("fault_"+strings.TrimPrefix(pl.Fn.String(), "Fn"), 1)

		if r.fired {
			fired++
			res.CaseHashes = append(res.CaseHashes, sim.HashString(fmt.Sprint(tr.FS, tr.Calls, pl.String())))
		}

		if finish(r, pl) {
			return res
		}
	}

	sim.Deactivate()

	res.Cases = len(plans) + 3
	tr.Plans = len(plans) + 2
	tr.Plan = fmt.Sprintf("all %d plans", tr.Plans)
	tr.Outcomes = r0.outcomes
	res.Trace = tr
	res.TraceHash = sim.HashString(fmt.Sprint(tr.FS, tr.Calls))
	res.Nontrivial = fired > 0 && r0.okCalls >= 3
	c.Count("histories_"+kind, 1)
	c.Count("faults_fired", int64(fired))

	return res
}

// compositeMustFail is the statement's table: the primitives on which each composite is built.
func compositeMustFail(k string, fn avfs.FnVFS) bool {
	switch k {
	case "Create", "Open":
		return fn == avfs.FnOpenFile
	case "WriteFile":
		return fn == avfs.FnOpenFile || fn == avfs.FnFileWrite || fn == avfs.FnFileClose || fn == avfs.FnWriteFile
	case "ReadFile":
		return fn == avfs.FnOpenFile || fn == avfs.FnFileRead || fn == avfs.FnReadFile
	case "ReadDir":
		return fn == avfs.FnOpenFile || fn == avfs.FnFileReadDir || fn == avfs.FnReadDir
	case "MkdirTemp":
		return fn == avfs.FnMkdir || fn == avfs.FnMkdirTemp
	case "CreateTemp":
		return fn == avfs.FnCreateTemp || fn == avfs.FnOpenFile
	case "WalkDir":
		return fn == avfs.FnWalkDir
	}

	return false
}
