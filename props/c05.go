package props

import (
	"fmt"
	"sort"
	"strings"

	"verif/fsx"
	"verif/sim"
)

// C05 — the namespace is always a well-formed tree with exact link counts.
type C05 struct{}

func (C05) ID() string { return "C05" }

func (C05) Describe() sim.Description {
	return sim.Description{
		Level: "exploration",
		Rule: "one case = either (a) a seeded sequential history of 4-30 namespace and handle calls on MemFS or OrefaFS whose operands are biased to aliasing " +
			"(root, self, ancestor/descendant, the same file through two hard links, paths through symbolic links, missing and wrong-type operands), with the monitor " +
			"evaluated after every call, or (b) a 2-4 client concurrent program under the seeded scheduler with the monitor evaluated on the final tree. " +
			"Monitor: internal graph walk (hook H4: every directory reached once, no cycle, stored link count = number of referring entries, OrefaFS index = " +
			"paths reachable through children maps), API walk (terminates within a node budget, ReadDir strictly sorted, listed iff Lstat succeeds, Nlink = size of the " +
			"SameFile class, same content/size/mode/owner through every link), a failed call (RemoveAll excepted) leaves the snapshot unchanged, a successful call changes " +
			"only paths in the closure of its operands (their subtrees, other hard links of a named file, what a named symbolic link resolves to). " +
			"non-trivial = at least two calls changed the tree; distinct by hash of configuration + calls (+ decisions)",
		Explanation: "deterministic simulation with the invariant monitor as oracle; no reference file system is involved, so sequential errno questions are C01's",
		Assumptions: []string{
			"the closure of a call's operands is computed by the harness's own resolver over the snapshot taken before the call",
			"OrefaFS cannot list or stat its root (known finding of C01): its walk starts at the top-level names",
		},
		RealCode: []string{"vfs/memfs", "vfs/orefafs", "VerifCheck walkers (verif-tagged code in /repo)"},
		Stubs:    []string{"blocking of sync.RWMutex modelled by the scheduler"},
	}
}

var c05Paths = []string{ //nolint:gochecknoglobals // aliasing-biased operand pool.
	"/a", "/b", "/a/f", "/b/g", "/a/d", "/a/d/h", "/b/k", "/a/x", "/b/x", "/a/d/x", "/a/d/a", "/a/d/a/x", "/b/x/b", "/", "/a/d/h/x", "/a/x/y",
	"/a/f/..", "/tmp", "/a/d/../f", "/a/l", "/a/lb", "/a/lb/g", "/a/lb/x",
}

func c05Op(t *sim.Tape, cfg *concCfg, uniq string) fsx.Op {
	kinds := []string{
		"Rename", "Link", "Remove", "RemoveAll", "Mkdir", "MkdirAll", "OpenFile", "WriteFile", "Truncate", "Symlink", "Chmod", "FWrite", "FClose",
		"FTruncate", "CreateTemp", "MkdirTemp", "Chown", "FWriteAt",
	}
	weights := []int{8, 5, 4, 4, 3, 3, 4, 2, 2, 3, 1, 2, 1, 1, 1, 1, 1, 1}

	if cfg.FS == "orefafs" {
		weights[9] = 0
	}

	o := fsx.Op{K: kinds[t.Weighted(weights)]}
	n := len(c05Paths)

	if cfg.FS == "orefafs" {
		n -= 4 // no symlink paths
	}

	p := func() string { return c05Paths[t.Int(n)] }

	switch o.K {
	case "Rename", "Link":
		o.P, o.Q = p(), p()

		if t.Chance(150) {
			o.Q = o.P // identical operands
		} else if t.Chance(150) {
			o.Q = o.P + "/sub" // destination below the source
		}
	case "Symlink":
		o.P, o.Q = []string{"f", "/b", "d", "../b/g", "/a/l", "x", "/a"}[t.Int(7)], p()
	case "OpenFile":
		o.P = p()
		o.Flag = genFlags(t)
		o.Perm = 0o644
		o.H = t.Int(2)
	case "WriteFile":
		o.P, o.Data, o.Perm = p(), uniq, 0o600
	case "Truncate":
		o.P, o.Size = p(), int64(t.Int(7))-1
	case "Mkdir", "MkdirAll":
		o.P, o.Perm = p(), 0o750
	case "Chmod":
		o.P, o.Perm = p(), []uint32{0o700, 0o644, 0o1777}[t.Int(3)]
	case "Chown":
		o.P, o.Uid, o.Gid = p(), 1000+t.Int(2), 1000
	case "FWrite":
		o.H, o.Data = t.Int(2), uniq
	case "FWriteAt":
		o.H, o.Data, o.Size = t.Int(2), uniq, int64(t.Int(9))
	case "FClose":
		o.H = t.Int(2)
	case "FTruncate":
		o.H, o.Size = t.Int(2), int64(t.Int(5))
	case "CreateTemp":
		o.P, o.Q, o.H = []string{"/a", "/tmp", "/a/d", ""}[t.Int(4)], "t*", t.Int(2)
	case "MkdirTemp":
		o.P, o.Q = []string{"/a", "/tmp", "/a/d", ""}[t.Int(4)], "t*"
	default:
		o.P = p()
	}

	return o
}

// snapIndex is a snapshot indexed by path, with the harness's own path resolver.
type snapIndex struct {
	nodes map[string]*fsx.Node
	snap  *fsx.Snap
}

func indexSnap(s *fsx.Snap) *snapIndex {
	x := &snapIndex{nodes: map[string]*fsx.Node{}, snap: s}
	for i := range s.Nodes {
		x.nodes[s.Nodes[i].Path] = &s.Nodes[i]
	}

	return x
}

func cleanAbs(p string) string {
	var out []string

	for _, part := range strings.Split(p, "/") {
		switch part {
		case "", ".":
		case "..":
			if len(out) > 0 {
				out = out[:len(out)-1]
			}
		default:
			out = append(out, part)
		}
	}

	return "/" + strings.Join(out, "/")
}

// resolve follows the symbolic links of the snapshot (the last component only when followLast).
func (x *snapIndex) resolve(p string, followLast bool) string {
	p = cleanAbs(p)

	for hops := 0; hops < 50; hops++ {
		parts := strings.Split(strings.TrimPrefix(p, "/"), "/")
		cur := ""
		changed := false

		for i, part := range parts {
			if part == "" {
				continue
			}

			next := cur + "/" + part
			n := x.nodes[next]
			last := i == len(parts)-1

			if n != nil && n.Type == 'l' && (!last || followLast) {
				target := n.Target
				if !strings.HasPrefix(target, "/") {
					target = cur + "/" + target
				}

				p = cleanAbs(target + "/" + strings.Join(parts[i+1:], "/"))
				changed = true

				break
			}

			cur = next
		}

		if !changed {
			return p
		}
	}

	return p
}

// closure returns the set of path prefixes a successful call may change.
func (x *snapIndex) closure(o fsx.Op, env *fsx.Env, handlePaths map[int]string) []string {
	var roots, exact []string

	add := func(p string) {
		if p == "" {
			return
		}

		roots = append(roots, cleanAbs(p), x.resolve(p, true), x.resolve(p, false))
	}

	switch o.K {
	case "MkdirAll":
		// every missing ancestor is created: each prefix of the path is named (exactly, not its subtree).
		cp := x.resolve(o.P, true)
		for i := 1; i < len(cp); i++ {
			if cp[i] == '/' {
				exact = append(exact, cp[:i])
			}
		}

		add(o.P)
	case "CreateTemp", "MkdirTemp":
		d := o.P
		if d == "" {
			d = "/tmp"
		}

		add(d)
	case "Symlink":
		add(o.Q)
	default:
		add(o.P)
		add(o.Q)
	}

	if strings.HasPrefix(o.K, "F") && o.H >= 0 && o.H < fsx.MaxHandles && env.H[o.H] != nil {
		// the file behind the handle, under whatever names it has now.
		if hi, err := env.H[o.H].Stat(); err == nil {
			for i := range x.snap.Nodes {
				n := &x.snap.Nodes[i]
				if n.Type != 'f' {
					continue
				}

				if li, err := env.VFS.Lstat(n.Path); err == nil && env.VFS.SameFile(hi, li) {
					roots = append(roots, n.Path)
				}
			}
		}
	}

	// other hard links of every file named (or lying below a named directory).
	classes := map[int]bool{}

	for i := range x.snap.Nodes {
		n := &x.snap.Nodes[i]
		if n.Type != 'f' {
			continue
		}

		for _, r := range roots {
			if n.Path == r || strings.HasPrefix(n.Path, strings.TrimSuffix(r, "/")+"/") {
				classes[n.Class] = true
			}
		}
	}

	for i := range x.snap.Nodes {
		n := &x.snap.Nodes[i]
		if n.Type == 'f' && classes[n.Class] {
			roots = append(roots, n.Path)
		}
	}

	for _, e := range exact {
		roots = append(roots, "="+e)
	}

	return roots
}

func inClosure(path string, roots []string) bool {
	for _, r := range roots {
		if strings.HasPrefix(r, "=") {
			if path == r[1:] {
				return true
			}

			continue
		}

		if path == r || strings.HasPrefix(path, strings.TrimSuffix(r, "/")+"/") {
			return true
		}
	}

	return false
}

func (w *world) internalCheck() []string {
	if w.mem != nil {
		return w.mem.VerifCheck()
	}

	return w.ore.VerifCheck("")
}

func (p C05) Run(c *sim.Ctx, t *sim.Tape) sim.RunResult {
	if t.Chance(350) {
		return p.runConc(c, t)
	}

	cfg := &concCfg{FS: []string{"memfs", "orefafs"}[t.Int(2)], HardLink: t.Chance(700)}
	cfg.Symlinks = cfg.FS == "memfs" && t.Chance(600)
	w := buildWorld(cfg, 1)
	env := w.envs[0]
	tr := seqTrace{FS: fmt.Sprintf("%s hardlink=%v symlinks=%v", cfg.FS, cfg.HardLink, cfg.Symlinks)}
	res := sim.RunResult{}
	okMut := 0
	handlePaths := map[int]string{}

	prevStr, prevSnap := w.digestTree()

	fail := func(i int, o fsx.Op, class, sig, msg string) sim.RunResult {
		tr.Verdict = msg
		res.Trace = tr
		res.Violation = &sim.Violation{Prop: "C05", Class: class, Sig: cfg.FS + " " + sig, Msg: fmt.Sprintf("after call %d %s: %s", i, o, msg)}

		return res
	}

	if pr := append(w.internalCheck(), prevSnap.Problems...); len(pr) > 0 {
		return fail(-1, fsx.Op{K: "setup"}, "structure", "initial tree", strings.Join(pr, "; "))
	}

	for i := 0; i < 30 && (i < 4 || t.Chance(900)); i++ {
		o := c05Op(t, cfg, fmt.Sprintf("<%d>", i))
		x := indexSnap(prevSnap)
		roots := x.closure(o, env, handlePaths)

		op := o
		out, v, msg := sim.Call1(func() string { return env.Exec(op).String() })
		res.Steps++
		tr.Calls = append(tr.Calls, o.String())
		tr.Outcomes = append(tr.Outcomes, out)

		if v == sim.VHarness {
			res.Harness = msg

			return res
		}

		if v != sim.VOK {
			// C07's verdict; the instance may hold locks: stop here.
			c.Count("inconclusive_"+v.String(), 1)

			break
		}

		ok := strings.HasPrefix(out, "ok")

		if ok && (o.K == "OpenFile" || o.K == "CreateTemp") {
			hp := o.P
			if o.K == "CreateTemp" {
				hp = env.LastTemp
			}

			handlePaths[o.H] = x.resolve(hp, true)
		}

		curStr, curSnap := w.digestTree()

		if pr := w.internalCheck(); len(pr) > 0 {
			return fail(i, o, "structure", "internal: "+stripPaths(pr[0]), strings.Join(pr, "; "))
		}

		if len(curSnap.Problems) > 0 {
			return fail(i, o, "structure", "api: "+stripPaths(curSnap.Problems[0]), strings.Join(curSnap.Problems, "; "))
		}

		if !ok && o.K != "RemoveAll" && curStr != prevStr {
			return fail(i, o, "failed-call-effect", o.K+" failed ("+errOf(out)+") but changed the tree", fsx.Diff(prevStr, curStr))
		}

		if ok && curStr != prevStr {
			okMut++

			before, after := prevSnap.Lines(), curSnap.Lines()

			var outside []string

			for pth, l := range after {
				if before[pth] != l && !inClosure(pth, roots) {
					outside = append(outside, pth)
				}
			}

			for pth := range before {
				if _, still := after[pth]; !still && !inClosure(pth, roots) {
					outside = append(outside, pth)
				}
			}

			if len(outside) > 0 {
				sort.Strings(outside)

				return fail(i, o, "collateral-change", o.K+" changed paths it does not name",
					fmt.Sprintf("paths outside the closure of the operands changed: %v\n%s", outside, fsx.Diff(prevStr, curStr)))
			}
		}

		prevStr, prevSnap = curStr, curSnap
	}

	sim.Deactivate()

	res.Trace = tr
	res.TraceHash = sim.HashString(fmt.Sprint(tr.FS, tr.Calls))
	res.Nontrivial = okMut >= 2
	c.Count("sequential_runs_"+cfg.FS, 1)
	c.Count("monitor_evaluations", int64(len(tr.Calls)))

	return res
}

func errOf(out string) string {
	if i := strings.IndexByte(out, ' '); i > 0 {
		return out[:i]
	}

	return out
}

// stripPaths removes quoted paths and numbers from a monitor message so that it can serve as a signature.
func stripPaths(s string) string {
	s = digitsRE.ReplaceAllString(s, "N")

	var b strings.Builder

	inq := false

	for _, r := range s {
		if r == '"' {
			inq = !inq

			b.WriteRune('"')

			continue
		}

		if !inq {
			b.WriteRune(r)
		}
	}

	out := b.String()
	// unquoted paths
	fields := strings.Fields(out)
	for i, f := range fields {
		if strings.HasPrefix(f, "/") || strings.HasPrefix(f, "[/") {
			fields[i] = "P"
		}
	}

	out = strings.Join(fields, " ")
	if len(out) > 120 {
		out = out[:120]
	}

	return out
}

// digestTree is the tree part of the world digest.
func (w *world) digestTree() (string, *fsx.Snap) {
	sn := fsx.Snapshot(w.fs, "/", fsx.SnapOpts{Tops: topNames})

	return sn.String(), sn
}

func (p C05) runConc(c *sim.Ctx, t *sim.Tape) sim.RunResult {
	filtered := !t.Chance(100)
	cfg := genConc(t, []string{"memfs", "orefafs"}, 3+deeper(c, t), 2+deeper(c, t), true)

	if filtered {
		dropKnownPairs(c, cfg, "C05")
	}

	r := runConc(t, cfg)

	defer r.S.Free()

	res := sim.RunResult{Steps: r.S.Steps, Trace: r.Trace, TraceHash: r.hash()}
	res.Nontrivial = r.OkMut >= 2 && r.S.DecPoints > 0
	res.OrderSensitive = r.S.BatchBlocks > 0
	c.Count("concurrent_runs_"+cfg.FS, 1)
	c.Count("decision_points", int64(r.S.DecPoints))

	switch r.Verdict {
	case sim.VOK:
	case sim.VHarness:
		res.Harness = r.Msg

		return res
	default:
		c.Count("inconclusive_"+r.Verdict.String(), 1)

		return res
	}

	_, sn := r.W.digestTree()
	pr := r.W.internalCheck()
	src := "internal: "

	if len(pr) == 0 {
		pr = sn.Problems
		src = "api: "
	}

	if len(pr) > 0 {
		tr := r.Trace
		tr.Final = strings.Split(strings.TrimSpace(sn.String()), "\n")
		res.Trace = tr
		sig := cfg.FS + " concurrent " + src + stripPaths(pr[0])
		if ancRace(cfg) {
			sig = cfg.FS + ancRaceSig
		}

		res.Violation = &sim.Violation{
			Prop: "C05", Class: "structure", Sig: sig,
			Msg: "final tree after the concurrent program: " + strings.Join(pr, "; "),
		}
	}

	return res
}
