package props

import (
	"fmt"
	"github.com/avfs/avfs/vfs/basepathfs"
	"sort"
	"strings"

	"github.com/avfs/avfs"
	"github.com/avfs/avfs/idm/memidm"
	"github.com/avfs/avfs/vfs/memfs"
	"github.com/avfs/avfs/vfs/orefafs"

	"verif/fsx"
	"verif/sim"
)

// C17 — OS-type emulation does not depend on the host.
type C17 struct{}

func (C17) ID() string { return "C17" }

func (C17) Describe() sim.Description {
	return sim.Description{
		Level: "exploration",
		Rule: "one case = (built with the avfs_setostype tag) a seeded history of 5-40 calls of the C01 templates expressed with portable path builders (Join of name components " +
			"under the instance's own root or volume) issued by the administrator on a Windows-typed and on a Linux-typed instance of the same file system (MemFS or OrefaFS): " +
			"call-by-call agreement on success or failure, isomorphic trees after ToSlash and volume stripping (names, types, contents, link counts, link targets; permission bits and " +
			"owners excluded, Chown/Lchown not generated), every error of the Windows-typed instance is a WindowsError (or one of the library's OS-independent errors); static part: " +
			"reported OS type, separator, volume calls (VolumeAdd/VolumeDelete/VolumeList over a few names, MemFS) against a set model. non-trivial = at least 3 calls changed the tree; " +
			"distinct by hash of the calls",
		Explanation: "deterministic twin simulation across the OS-type configuration knob; without the build tag the check verifies the documented refusal (SetOSType error) instead",
		Assumptions: []string{"the Linux-typed instance of the same implementation is the reference, so defects common to both OS types cancel out (C01's)"},
		RealCode:    []string{"ostype.go", "vfs_ostype_on.go", "errors.go", "vfs/memfs", "vfs/orefafs"},
		Stubs:       []string{"none"},
	}
}

type osPair struct {
	lin, win   avfs.VFS
	le, we     *fsx.Env
	kind       string
	winVolumes avfs.VolumeManager
}

func newOSPair(kind string) *osPair {
	mk := func(ost avfs.OSType) avfs.VFS {
		if kind == "orefafs" {
			v := orefafs.NewWithOptions(&orefafs.Options{OSType: ost})
			_ = v.SetUMask(0o022)

			return v
		}

		v := memfs.NewWithOptions(&memfs.Options{OSType: ost, Idm: memidm.NewWithOptions(&memidm.Options{OSType: ost})})
		_ = v.SetUMask(0o022)

		return v
	}

	p := &osPair{lin: mk(avfs.OsLinux), win: mk(avfs.OsWindows), kind: kind}
	p.le = &fsx.Env{VFS: p.lin}
	p.we = &fsx.Env{VFS: p.win}

	if vm, ok := p.win.(avfs.VolumeManager); ok {
		p.winVolumes = vm
	}

	return p
}

// c17WinVolume is the volume the Windows-typed twin works on in the run in progress (set on the main goroutine
// at the start of a run): the default one, or a second drive added for the run.
var c17WinVolume = avfs.DefaultVolume //nolint:gochecknoglobals // see above.

// portable builds the path of the components on one instance: Join under its own root or volume.
func portable(v avfs.VFS, comps []string, rel bool) string {
	if len(comps) == 0 && !rel {
		if v.OSType() == avfs.OsWindows {
			return c17WinVolume + string(v.PathSeparator())
		}

		return "/"
	}

	if rel {
		return v.Join(comps...)
	}

	root := "/"
	if v.OSType() == avfs.OsWindows {
		root = c17WinVolume + string(v.PathSeparator())
	}

	return v.Join(append([]string{root}, comps...)...)
}

type c17Op struct {
	K      string
	P, Q   []string // name components
	PRel   bool     // P relative to the current directory
	Target []string // symlink target components
	TRel   bool
	Rest   fsx.Op // non-path fields
	Trail  bool   // P written with a trailing '/' (a separator on both OS types)
	Climb  bool   // P written as root + "../" + components, with forward slashes on both OS types
}

func (o c17Op) String() string {
	s := o.K + "(" + strings.Join(o.P, "/")
	if o.Trail {
		s += "/"
	}

	if o.Climb {
		s = o.K + "(<root>/../" + strings.Join(o.P, "/")
	}

	if o.Q != nil {
		s += " , " + strings.Join(o.Q, "/")
	}

	if o.Target != nil {
		s += " -> " + strings.Join(o.Target, "/")
	}

	return s + ")"
}

func (o c17Op) on(v avfs.VFS) fsx.Op {
	op := o.Rest
	op.K = o.K

	switch o.K {
	case "Symlink":
		op.P = portable(v, o.Target, o.TRel)
		op.Q = portable(v, o.Q, false)
	case "Rename", "Link":
		op.P = portable(v, o.P, o.PRel)
		op.Q = portable(v, o.Q, false)
	default:
		if o.P != nil || !strings.HasPrefix(o.K, "F") {
			op.P = portable(v, o.P, o.PRel)
		}
	}

	if strings.HasPrefix(o.K, "F") || o.K == "Getwd" {
		op.P = ""
	}

	if o.Climb && o.P != nil && o.K != "Symlink" {
		// above the root there is the root: "/../x" and "C:/../x" are "/x" and "C:\x".
		root := "/"
		if v.OSType() == avfs.OsWindows {
			root = c17WinVolume + "/"
		}

		op.P = root + "../" + strings.Join(o.P, "/")
	}

	if o.Trail && op.P != "" && o.K != "Symlink" {
		op.P += "/"
	}

	return op
}

var c17Names = []string{"a", "b", "d", "f", "g", "x", "y", "w"} //nolint:gochecknoglobals // portable name components.

func c17Comps(t *sim.Tape) []string {
	n := t.Range(1, 3)
	out := make([]string, 0, n)

	for i := 0; i < n; i++ {
		out = append(out, c17Names[t.Weighted([]int{5, 3, 3, 4, 2, 4, 2, 0})])
	}

	// everything happens below the work directory "w" (the system directories differ by design).
	return append([]string{"w"}, out...)
}

func c17Gen(t *sim.Tape, kind string, uniq string, chdirDone, wrapped bool) c17Op {
	kinds := []string{
		"Mkdir", "MkdirAll", "WriteFile", "ReadFile", "ReadDir", "Remove", "RemoveAll", "Rename", "Link", "Truncate", "Stat", "Lstat", "OpenFile", "FWrite",
		"FRead", "FClose", "Chdir", "Getwd", "Symlink", "Readlink", "EvalSymlinks", "Create", "FTruncate", "FStat", "Exists", "CreateTemp", "MkdirTemp", "Sub",
	}
	weights := []int{4, 3, 5, 3, 3, 3, 2, 4, 2, 2, 2, 2, 3, 2, 1, 1, 2, 1, 2, 1, 1, 1, 1, 1, 1, 1, 1, 1}

	if kind == "orefafs" {
		weights[18], weights[19], weights[20] = 0, 0, 0
	}

	o := c17Op{K: kinds[t.Weighted(weights)]}
	o.P = c17Comps(t)
	o.PRel = chdirDone && t.Chance(300)

	if o.PRel {
		o.P = o.P[1:]
	}

	if wrapped {
		// through a BasePathFS rooted at the work directory: its own root, "." and ".." are operands too.
		if !o.PRel {
			o.P = o.P[1:]
		}

		switch t.Int(12) {
		case 0:
			o.P, o.PRel = nil, false
		case 1:
			o.P, o.PRel = []string{"."}, true
		case 2:
			o.P, o.PRel = []string{".."}, true
		}
	}

	switch o.K {
	case "Rename", "Link":
		o.Q = c17Comps(t)
	case "Symlink":
		o.Q = o.P
		o.P = nil
		o.Target = c17Comps(t)
		o.TRel = t.Chance(600)

		if o.TRel {
			o.Target = o.Target[1:] // relative to the link's directory

			if t.Chance(350) {
				// leaving the link's directory: the search goes on from the root of the volume.
				o.Target = append([]string{".."}, o.Target...)
			}
		}
	case "WriteFile":
		o.Rest.Data, o.Rest.Perm = uniq, 0o644
	case "Mkdir", "MkdirAll":
		o.Rest.Perm = 0o755
	case "Truncate":
		o.Rest.Size = int64(t.Int(5))
	case "OpenFile":
		o.Rest.Flag, o.Rest.Perm, o.Rest.H = genFlags(t), 0o644, t.Int(2)
	case "Create":
		o.Rest.H = t.Int(2)
	case "FWrite":
		o.P = nil
		o.Rest.H, o.Rest.Data = t.Int(2), uniq
	case "FRead":
		o.P = nil
		o.Rest.H, o.Rest.N = t.Int(2), 8
	case "FClose", "FStat":
		o.P = nil
		o.Rest.H = t.Int(2)
	case "FTruncate":
		o.P = nil
		o.Rest.H, o.Rest.Size = t.Int(2), int64(t.Int(4))
	case "Getwd":
		o.P = nil
	case "CreateTemp", "MkdirTemp":
		o.P = [][]string{{"w", "a"}, {"w"}, {"w", "x"}}[t.Int(3)]
		o.PRel = false
		o.Rest.Q, o.Rest.H = "t*", t.Int(2)

		if wrapped {
			o.P = o.P[1:]
		}
	}

	if !o.PRel && o.P != nil && o.K != "CreateTemp" && o.K != "MkdirTemp" {
		switch t.Int(16) {
		case 0:
			o.Trail = true
		case 1:
			o.Climb = true
		}
	}

	if wrapped && o.Q != nil {
		o.Q = o.Q[1:]
	}

	if wrapped && o.Target != nil && !o.TRel {
		o.Target = o.Target[1:]
	}

	return o
}

// isoSnapshot renders a tree without permission bits, owners and OS-specific path syntax.
func isoSnapshot(v avfs.VFS) string {
	root := portable(v, nil, false)
	sn := fsx.Snapshot(v, root, fsx.SnapOpts{Tops: c17Names})

	var lines []string

	strip := func(p string) string {
		p = v.ToSlash(p)
		if len(p) >= 2 && p[1] == ':' {
			p = p[2:]
		}

		if p == "" {
			p = "/"
		}

		return strings.Replace(p, "//", "/", -1)
	}

	for i := range sn.Nodes {
		n := &sn.Nodes[i]
		l := strip(n.Path) + " " + string(n.Type)

		switch n.Type {
		case 'f':
			cls := ""
			if n.Class >= 0 && n.Class < len(sn.Nodes) {
				cls = strip(sn.Nodes[n.Class].Path)
			}

			l += fmt.Sprintf(" size=%d nlink=%d same=%s data=%q", n.Size, n.Nlink, cls, n.Data)
		case 'l':
			l += " -> " + strip(n.Target)
		case '!':
			l += " " + n.Err
		}

		lines = append(lines, l)
	}

	for _, pr := range sn.Problems {
		lines = append(lines, "PROBLEM "+digitsRE.ReplaceAllString(pr, "N"))
	}

	sort.Strings(lines)

	// system directories differ by design between the OS types.
	var out []string

	for _, l := range lines {
		p := strings.Fields(l)[0]
		if p == "/" || p == "/home" || p == "/root" || p == "/tmp" || strings.HasPrefix(p, "/Users") || strings.HasPrefix(p, "/Windows") ||
			strings.HasPrefix(p, "/home/") || strings.HasPrefix(p, "/root/") {
			continue
		}

		out = append(out, l)
	}

	return strings.Join(out, "\n") + "\n"
}

func (p C17) Run(c *sim.Ctx, t *sim.Tape) sim.RunResult {
	res := sim.RunResult{}

	if avfs.BuildFeatures()&avfs.FeatSetOSType == 0 {
		// without the build tag a foreign OS type must be refused and the file system keeps the host type.
		var osf avfs.OSTypeFn
		if err := osf.SetOSType(avfs.OsWindows); err == nil {
			res.Violation = &sim.Violation{Prop: "C17", Class: "setostype", Sig: "SetOSType accepts a foreign type without the build tag", Msg: "SetOSType(OsWindows) returned nil in a build without avfs_setostype"}
		}

		res.Harness = "C17 needs the simulator built with -tags avfs_setostype"

		return res
	}

	kind := []string{"memfs", "orefafs"}[t.Int(2)]
	pr := newOSPair(kind)
	tr := seqTrace{FS: kind + " windows-typed vs linux-typed"}

	fail := func(i int, o fmt.Stringer, class, sig, msg string) sim.RunResult {
		tr.Verdict = msg
		res.Trace = tr
		res.Violation = &sim.Violation{Prop: "C17", Class: class, Sig: kind + " " + sig, Msg: fmt.Sprintf("call %d %s: %s", i, o, msg)}

		return res
	}

	// static part.
	if pr.win.OSType() != avfs.OsWindows || pr.win.PathSeparator() != '\\' {
		return fail(-1, c17Op{K: "New"}, "static", "Windows-typed instance does not report Windows",
			fmt.Sprintf("OSType=%v separator=%q", pr.win.OSType(), pr.win.PathSeparator()))
	}

	if pr.lin.OSType() != avfs.OsLinux || pr.lin.PathSeparator() != '/' {
		return fail(-1, c17Op{K: "New"}, "static", "Linux-typed instance does not report Linux",
			fmt.Sprintf("OSType=%v separator=%q", pr.lin.OSType(), pr.lin.PathSeparator()))
	}

	// volume management against a set model (MemFS).
	if pr.winVolumes != nil && t.Chance(400) {
		model := map[string]bool{avfs.DefaultVolume: true}

		for i := 0; i < 8 && (i < 2 || t.Chance(800)); i++ {
			vol := []string{"D:", "E:", "C:", "d:", "Z:", "", "DD", "D:\\x"}[t.Int(8)]
			add := t.Chance(600)

			var err error

			if add {
				err = pr.winVolumes.VolumeAdd(vol)
			} else {
				err = pr.winVolumes.VolumeDelete(vol)
			}

			name := avfs.VolumeName(pr.win, vol)
			valid := name != ""
			wantOK := valid && (add != model[name])

			if !add && name == avfs.DefaultVolume {
				wantOK = model[name] // deleting the default volume: allowed if present
			}

			tr.Calls = append(tr.Calls, fmt.Sprintf("Volume%s(%q)", map[bool]string{true: "Add", false: "Delete"}[add], vol))
			tr.Outcomes = append(tr.Outcomes, fsx.ErrClass(err))

			if (err == nil) != wantOK {
				return fail(i, c17Op{K: "Volume"}, "volume", "volume call outcome differs from the set model",
					fmt.Sprintf("Volume%v(%q) returned %v; volumes before: %v", map[bool]string{true: "Add", false: "Delete"}[add], vol, err, keysOf(model)))
			}

			if err == nil {
				if add {
					model[name] = true
				} else {
					delete(model, name)
				}
			}

			got := append([]string(nil), pr.winVolumes.VolumeList()...)
			sort.Strings(got)

			if want := keysOf(model); strings.Join(got, ",") != strings.Join(want, ",") {
				return fail(i, c17Op{K: "VolumeList"}, "volume", "VolumeList differs from the set model", fmt.Sprintf("got %v want %v", got, want))
			}
		}

		if lv, ok := pr.lin.(avfs.VolumeManager); ok {
			if err := lv.VolumeAdd("D:"); err == nil || len(lv.VolumeList()) != 0 {
				return fail(0, c17Op{K: "VolumeAdd"}, "volume", "volume calls work on a Linux-typed instance", fmt.Sprint(err, lv.VolumeList()))
			}
		}

		if !model[avfs.DefaultVolume] {
			// the default volume is gone: the dynamic part has nothing to run on.
			res.Trace = tr
			res.TraceHash = sim.HashString(fmt.Sprint(tr.Calls))

			return res
		}
	}

	okMut := 0
	chdirDone := false
	c17WinVolume = avfs.DefaultVolume

	if pr.winVolumes != nil && t.Chance(350) {
		// the Windows-typed twin works on a second drive, entered with Chdir (the Linux-typed one stays where it is).
		_ = pr.winVolumes.VolumeAdd("D:")

		for _, vol := range pr.winVolumes.VolumeList() {
			if vol == "D:" {
				c17WinVolume = "D:"
			}
		}

		if c17WinVolume == "D:" {
			if err := pr.win.Chdir(portable(pr.win, nil, false)); err != nil {
				return fail(-1, c17Op{K: "Chdir"}, "outcome-differs", "cannot enter the root of an added volume", err.Error())
			}

			c.Count("runs_on_a_second_volume", 1)
		}
	}

	if e1, e2 := pr.lin.Mkdir(portable(pr.lin, []string{"w"}, false), 0o755), pr.win.Mkdir(portable(pr.win, []string{"w"}, false), 0o755); e1 != nil || e2 != nil {
		return fail(-1, c17Op{K: "Mkdir", P: []string{"w"}}, "outcome-differs", "cannot create the work directory", fmt.Sprint(e1, e2))
	}

	// every fourth run drives both twins through a BasePathFS rooted at the work directory.
	wrapped := c17WinVolume == avfs.DefaultVolume && t.Chance(250)
	if wrapped {
		lw, e1 := basepathfs.NewWithErr(pr.lin, portable(pr.lin, []string{"w"}, false))
		ww, e2 := basepathfs.NewWithErr(pr.win, portable(pr.win, []string{"w"}, false))

		if e1 != nil || e2 != nil {
			return fail(-1, c17Op{K: "New"}, "outcome-differs", "cannot create a BasePathFS on the work directory", fmt.Sprint(e1, e2))
		}

		pr.le, pr.we = &fsx.Env{VFS: lw}, &fsx.Env{VFS: ww}
		tr.FS += " through BasePathFS"

		c.Count("runs_through_basepathfs", 1)
	}

	for i := 0; i < 40 && (i < 5 || t.Chance(930)); i++ {
		o := c17Gen(t, kind, fmt.Sprintf("<%d>", i), chdirDone, wrapped)
		lop, wop := o.on(pr.le.VFS), o.on(pr.we.VFS)

		var lr, wr fsx.Result

		_, v1, m1 := sim.Call1As(0, i, 1000, func() string { lr = pr.le.Exec(lop); return lr.String() })
		_, v2, m2 := sim.Call1As(0, i, 1000, func() string { wr = pr.we.Exec(wop); return wr.String() })

		res.Steps += 2
		tr.Calls = append(tr.Calls, o.String()+"  [linux "+lop.String()+" | windows "+wop.String()+"]")
		tr.Outcomes = append(tr.Outcomes, "linux: "+lr.String()+" | windows: "+wr.String())

		if v1 == sim.VHarness || v2 == sim.VHarness {
			res.Harness = m1 + m2

			return res
		}

		if v2 != sim.VOK && v1 == sim.VOK {
			return fail(i, o, "windows-"+v2.String(), "Windows-typed instance: "+v2.String()+" in "+o.K, m2)
		}

		if v1 != sim.VOK {
			break
		}

		if (o.K == "RemoveAll" || o.K == "Exists") && lr.Err == "ENOTDIR" && wr.Err == "ok" {
			res.Soft = append(res.Soft, &sim.Violation{
				Prop: "C17", Class: "outcome-differs", Sig: kind + " " + o.K + " of a path below a regular file: not-exist (success) on the Windows type, ENOTDIR on the Linux type",
				Msg: fmt.Sprintf("call %d %s: linux %s | windows %s", i, o, lr, wr),
			})
		} else if o.Trail && lr.Err == "ENOTDIR" && wr.Err == "ok" {
			// same root cause, other calls: recorded, and the run ends here (the twins have parted).
			res.Soft = append(res.Soft, &sim.Violation{
				Prop: "C17", Class: "outcome-differs", Sig: kind + " " + o.K + " of a regular file followed by a separator: success on the Windows type, ENOTDIR on the Linux type",
				Msg: fmt.Sprintf("call %d %s: linux %s | windows %s", i, o, lr, wr),
			})

			break
		} else if (lr.Err == "ok") != (wr.Err == "ok") {
			return fail(i, o, "outcome-differs", o.K+" succeeds on one OS type and fails on the other", "linux "+lr.String()+" | windows "+wr.String())
		}

		if wr.Err != "ok" && !strings.HasPrefix(wr.Err, "W") && wr.Err != "EOF" && wr.Err != "closed" && wr.Err != "invalid" && wr.Err != "nohandle" &&
			wr.Err != "negoff" && wr.Err != "patsep" && wr.Err != "ELOOP" {
			return fail(i, o, "error-type", o.K+" on the Windows-typed instance returns a non-Windows error", wr.String())
		}

		if lr.Err == "ok" {
			// data that does not contain paths must agree.
			switch o.K {
			case "ReadFile", "FRead", "FWrite", "Exists", "Sub":
				if lr.Data != wr.Data {
					return fail(i, o, "data-differs", o.K+" returns different data", "linux "+lr.String()+" | windows "+wr.String())
				}
			case "ReadDir":
				if lr.Data != wr.Data {
					return fail(i, o, "data-differs", "ReadDir lists different entries", "linux "+lr.String()+" | windows "+wr.String())
				}
			}

			if isMutator(o.K) {
				okMut++
			}

			if o.K == "Chdir" {
				chdirDone = true
			}
		}

		if sl, sw := isoSnapshot(pr.lin), isoSnapshot(pr.win); sl != sw {
			return fail(i, o, "tree-differs", o.K+" leaves trees that are not isomorphic", fsx.Diff(sl, sw))
		}
	}

	sim.Deactivate()
	pr.le.CloseAll()
	pr.we.CloseAll()

	res.Trace = tr
	res.TraceHash = sim.HashString(fmt.Sprint(tr.FS, tr.Calls))
	res.Nontrivial = okMut >= 3
	c.Count("runs_"+kind, 1)

	return res
}

func keysOf(m map[string]bool) []string {
	out := make([]string, 0, len(m))
	for k := range m {
		out = append(out, k)
	}

	sort.Strings(out)

	return out
}
