#!/bin/bash
# Development helper: determinism self-test. For each check, the first N runs of W workers are executed
# REP times in separate processes at GOMAXPROCS 1, 4 and 16; the per-run logs (tape hash = every choice drawn,
# trace hash = every call and outcome, steps, verdict signature) must be identical.
#   usage: selftest_determinism.sh [N runs per worker=300] [ids...]
# exit 0 all identical, 1 a difference (printed), 2 harness trouble.
export GOFLAGS=-mod=mod GOPROXY=off GOSUMDB=off GOTOOLCHAIN=local
cd /verif || exit 2
n="${1:-300}"; shift
ids="$*"; [ -z "$ids" ] && ids=$(jq -r '.checks[].property_id' MANIFEST.json)
./check --setup > /dev/null || exit 2
rc=0
for id in $ids; do
  bin=bin/simcheck; [ "$id" = C08 ] && bin=bin/simcheck-race; { [ "$id" = C17 ] || [ "$id" = C15 ] || [ "$id" = C07 ] || [ "$id" = C06 ]; } && bin=bin/simcheck-ostype
  d=.work/det/$id; rm -rf $d; mkdir -p $d
  k=0
  for procs in 1 4 16 1 16; do
    k=$((k+1))
    VERIF_RUNLOG=$PWD/$d/log$k GOMAXPROCS=$procs VERIF_BUDGET_S=600 $bin -prop $id -tier quick -jobs 4 -maxruns $n -evidence $d/ev$k.json -replays $d/replays > $d/out$k.txt 2>&1
    e=$?; [ $e -ge 2 ] && { echo "$id: run $k exit $e"; rc=2; }
  done
  bad=0
  for w in 0 1 2 3; do
    for k in 2 3 4 5; do
      if ! cmp -s $d/log1.w$w $d/log$k.w$w; then bad=$((bad+1)); [ $bad -le 3 ] && { echo "$id: worker $w differs between execution 1 and $k:"; diff $d/log1.w$w $d/log$k.w$w | head -6; }; fi
    done
  done
  lines=$(cat $d/log1.w* | wc -l); os=$(grep -c "ordersens=true" $d/log1.w* | awk -F: '{s+=$2} END {print s}')
  if [ $bad -eq 0 ]; then echo "$id: $lines runs x 5 executions (GOMAXPROCS 1,4,16,1,16) identical; order-sensitive runs: $os"; else echo "$id: $bad differing logs"; rc=1; fi
done
exit $rc
