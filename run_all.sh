#!/bin/bash
# Development helper: runs every registered check once and prints one line per check.
b="${1:-15}"; tier="${2:-quick}"
cd /verif
for id in $(jq -r '.checks[].property_id' MANIFEST.json) "${@:3}"; do
  out=$(VERIF_BUDGET_S=$b ./check "$id" --tier "$tier" 2>&1); code=$?
  runs=$(echo "$out" | grep -o "runs=[0-9]*" | head -1); nt=$(echo "$out" | grep -o "distinct_nontrivial=[0-9]*" | head -1)
  kf=$(echo "$out" | grep -c "^KNOWN-FINDING"); vi=$(echo "$out" | grep -c "^VIOLATION")
  echo "$id exit=$code $runs $nt known=$kf violations=$vi"
  [ $code -ne 0 ] && echo "$out" | grep -E "VIOLATION|class=|HARNESS" | head -4
done
