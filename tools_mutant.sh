#!/bin/bash
# usage: tools_mutant.sh <patch.diff> <budget_s> <prop>...   — applies a seeded change to /repo, runs the checks, reverts.
patch="$1"; budget="$2"; shift 2
cd /repo || exit 2
if ! git apply --check "$patch" 2>/dev/null; then echo "PATCH DOES NOT APPLY: $patch"; exit 3; fi
git apply "$patch"
for p in "$@"; do
  out=$(cd /verif && VERIF_BUDGET_S=$budget ./check "$p" 2>&1)
  code=$?
  echo "== $p exit=$code"
  echo "$out" | grep -E "VIOLATION|class=|HARNESS" | head -6
done
git -C /repo checkout -- . ; git -C /repo status --short | head -3
