#!/bin/bash
# Development helper: applies every seeded change of /verif/seeded to /repo in turn, builds, runs the repository's own
# test suite, runs the checks expected to notice the change (quick tier), reverts, and writes seeded/RESULTS.md
# and seeded/<id>/verified.json. usage: seeded_run.sh [budget_s] [id...]
export GOFLAGS=-mod=mod GOPROXY=off GOSUMDB=off GOTOOLCHAIN=local
budget="${1:-30}"; shift
cd /verif || exit 2
ids="$*"; [ -z "$ids" ] && ids=$(ls seeded | grep -E '^C[0-9]+m[0-9]+$')
if [ -n "$(git -C /repo status --porcelain)" ]; then echo "/repo is not clean"; exit 2; fi
out=seeded/RESULTS.md
[ -z "$*" ] && { echo "| seeded change | builds | repository tests | check | verdict | first violation |"; echo "|---|---|---|---|---|---|"; } > $out
for id in $ids; do
  d=seeded/$id
  git -C /repo apply /verif/$d/patch.diff || { echo "| $id | patch does not apply |" >> $out; continue; }
  builds=yes; (cd /repo && go build ./... 2>/dev/null) || builds=no
  tests=$(cd /repo && go test -vet=off -count=1 -timeout 25m ./... 2>&1 | grep -E "^(--- FAIL|FAIL|ok)" | grep -v "TestOsFS\b" | grep -v "TestOsFS/TestCreateHomeDir" | grep -v "^FAIL$" | grep -v "^FAIL.*vfs/osfs" | grep -c "FAIL")
  [ "$tests" = "0" ] && tests="pass" || tests="FAIL($tests)"
  res=""
  for p in $(jq -r '.expected_checks[]' $d/meta.json); do
    o=$(VERIF_BUDGET_S=$budget ./check "$p" 2>&1); code=$?
    first=$(echo "$o" | grep -m1 "class=.*signature=" | sed 's/^ *//; s/|/\\|/g')
    verdict="missed"; [ $code -eq 1 ] && verdict="caught"; [ $code -ge 2 ] && verdict="check broke (exit $code)"
    echo "| $id | $builds | $tests | $p | $verdict | $first |" >> $out
    res="$res{\"check\":\"$p\",\"exit\":$code,\"verdict\":\"$verdict\"},"
  done
  echo "{\"id\":\"$id\",\"builds\":\"$builds\",\"repository_tests\":\"$tests\",\"budget_s\":$budget,\"repo_head\":\"$(git -C /repo rev-parse --short HEAD)\",\"checks\":[${res%,}]}" > $d/verified.json
  git -C /repo checkout -- . ; git -C /repo clean -fdq -- vfs idm 2>/dev/null
  echo "$id done: $(cat $d/verified.json)"
done
git -C /repo status --short | head -3
