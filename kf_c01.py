#!/usr/bin/env python3
"""Development helper: adds reviewed families of C01..C04/C14 signatures found in replays/ to known_findings.json."""
import json, glob, re, sys
prop = sys.argv[1]
FAM = [
 (r"rel-cwd-moved", "after the current directory has been renamed the kernel keeps resolving relative paths in that directory; the library resolves them against the remembered old path"),
 (r"rel-cwd-gone", "after the current directory has been removed the kernel fails every relative path with ENOENT; the library keeps resolving relative paths against the remembered directory path"),
 (r"\|(Remove|RemoveAll|Rename)\|root.*want=(EBUSY|EINVAL)", "the kernel answers EBUSY for removing or renaming the root directory; the library's errno tables have no EBUSY and a permission/argument error is reported instead"),
 (r"\|Link\|symlink->", "link(2) on a symbolic link makes a hard link to the link itself; MemFS only links regular files and reports EPERM (symlink nodes carry no link count)"),
 (r"sugid|sgid-parent", "setuid/setgid semantics are not emulated: chown does not clear the setuid/setgid bits of a file, and entries created in a setgid directory do not inherit its group and (for directories) the setgid bit"),
 (r"\|Rename\|(missing|below-file|missing-parent)[^;]*;(below-file|missing-parent|loop)", "when both operands of Rename are invalid the kernel reports the error of the new path's resolution, the library the error of the old path"),
 (r"\|Getwd\|", "after the current directory has been removed getcwd(2) fails with ENOENT; the library keeps returning the remembered path"),
 (r"\|MkdirAll\|.*via-symlink => want=EEXIST", "MkdirAll through a dangling symbolic link in the middle of the path: os.MkdirAll reports EEXIST (the link exists and is not a directory), MemFS follows the link and creates its target"),
 (r"\|MkdirAll\|loop", "MkdirAll through a symbolic link loop: os.MkdirAll ends with EEXIST from its final Mkdir/Lstat sequence, the library reports ELOOP from its path search"),
]
k = json.load(open('known_findings.json'))
have = {(f['property'], f['signature']) for f in k['findings']}
rest = []
for f in sorted(glob.glob('replays/%s-*.json' % prop)):
    r = json.load(open(f))
    sig = r['violation']['signature']
    if (prop, sig) in have: continue
    for rx, what in FAM:
        if re.search(rx, sig):
            have.add((prop, sig)); k['findings'].append({"property": prop, "signature": sig, "what": what, "status": "open"}); print("added", sig); break
    else:
        rest.append(sig)
json.dump(k, open('known_findings.json', 'w'), indent=1)
for s in sorted(set(rest)): print("UNREVIEWED", s)
