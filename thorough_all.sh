#!/bin/bash
# Development helper: thorough tier of every registered check, one after the other. usage: thorough_all.sh [seed] [budget_s]
cd /verif
seed="${1:-20260926}"; b="${2:-}"
for id in $(jq -r '.checks[].property_id' MANIFEST.json); do
  if [ -n "$b" ]; then out=$(VERIF_SEED=$seed VERIF_BUDGET_S=$b ./check "$id" --tier thorough 2>&1); else out=$(VERIF_SEED=$seed ./check "$id" --tier thorough 2>&1); fi
  code=$?
  runs=$(echo "$out" | grep -o "runs=[0-9]*" | head -1); nt=$(echo "$out" | grep -o "distinct_nontrivial=[0-9]*" | head -1); wall=$(echo "$out" | grep -o "wall=[0-9.]*s" | head -1)
  kf=$(echo "$out" | grep -c "^KNOWN-FINDING"); vi=$(echo "$out" | grep -c "^VIOLATION")
  echo "$id seed=$seed exit=$code $runs $nt $wall known=$kf violations=$vi"
  [ $code -ne 0 ] && echo "$out" | grep -E "VIOLATION|class=|HARNESS" | head -8
  cp evidence/$id.json .work/thorough-$id-$seed.json 2>/dev/null
done
