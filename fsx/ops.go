// Package fsx is the operation vocabulary shared by every check: a serialisable Op,
// an executor that applies it to any avfs.VFS (MemFS, OrefaFS, the wrappers, and OsFS
// inside the chrooted kernel helper) and canonical outcome / snapshot strings.
package fsx

import (
	"errors"
	"fmt"
	"io"
	"io/fs"
	"os"
	"path/filepath"
	"sort"
	"strconv"
	"strings"
	"syscall"
	"time"

	"github.com/avfs/avfs"
)

// Op is one API call.
type Op struct {
	K    string `json:"k"`
	P    string `json:"p,omitempty"`
	Q    string `json:"q,omitempty"`
	Flag int    `json:"flag,omitempty"`
	Perm uint32 `json:"perm,omitempty"`
	Size int64  `json:"size,omitempty"`
	N    int    `json:"n,omitempty"`
	Data string `json:"data,omitempty"`
	H    int    `json:"h,omitempty"`
	Uid  int    `json:"uid,omitempty"`
	Gid  int    `json:"gid,omitempty"`
	Hint string `json:"hint,omitempty"` // reference side only: name chosen by the system under test
	Skip int    `json:"skip,omitempty"` // WalkDir: visit index at which the callback interferes (1-based)
	Act  int    `json:"act,omitempty"`  // WalkDir: 1 SkipDir, 2 SkipAll, 3 error at visit Skip; 4 the reported error, 5 SkipDir, 6 SkipAll on a visit that reports an error
}

func (o Op) String() string {
	var b strings.Builder

	b.WriteString(o.K)
	b.WriteByte('(')

	first := true
	add := func(s string) {
		if !first {
			b.WriteString(", ")
		}

		first = false

		b.WriteString(s)
	}

	switch o.K {
	case "OpenFile":
		add(strconv.Quote(o.P))
		add(FlagString(o.Flag))
		add(fmt.Sprintf("%#o", o.Perm))
		add("h" + strconv.Itoa(o.H))
	case "Create", "Open":
		add(strconv.Quote(o.P))
		add("h" + strconv.Itoa(o.H))
	case "CreateTemp":
		add(strconv.Quote(o.P))
		add(strconv.Quote(o.Q))
		add("h" + strconv.Itoa(o.H))
	case "MkdirTemp", "Rename", "Link", "Symlink":
		add(strconv.Quote(o.P))
		add(strconv.Quote(o.Q))
	case "Mkdir", "MkdirAll", "Chmod":
		add(strconv.Quote(o.P))
		add(fmt.Sprintf("%#o", o.Perm))
	case "WriteFile":
		add(strconv.Quote(o.P))
		add(strconv.Quote(o.Data))
		add(fmt.Sprintf("%#o", o.Perm))
	case "Truncate":
		add(strconv.Quote(o.P))
		add(strconv.FormatInt(o.Size, 10))
	case "Chown", "Lchown":
		add(strconv.Quote(o.P))
		add(strconv.Itoa(o.Uid))
		add(strconv.Itoa(o.Gid))
	case "Chtimes":
		add(strconv.Quote(o.P))
		add(strconv.FormatInt(o.Size, 10))
	case "WalkDir":
		add(strconv.Quote(o.P))
		add(fmt.Sprintf("act%d@%d", o.Act, o.Skip))
	case "SetUMask":
		add(fmt.Sprintf("%#o", o.Perm))
	case "SetUser":
		add(strconv.Itoa(o.Uid))
	case "FRead":
		add("h" + strconv.Itoa(o.H))
		add(strconv.Itoa(o.N))
	case "FReadAt":
		add("h" + strconv.Itoa(o.H))
		add(strconv.Itoa(o.N))
		add(strconv.FormatInt(o.Size, 10))
	case "FWrite", "FWriteString":
		add("h" + strconv.Itoa(o.H))
		add(strconv.Quote(o.Data))
	case "FWriteAt":
		add("h" + strconv.Itoa(o.H))
		add(strconv.Quote(o.Data))
		add(strconv.FormatInt(o.Size, 10))
	case "FSeek":
		add("h" + strconv.Itoa(o.H))
		add(strconv.FormatInt(o.Size, 10))
		add(strconv.Itoa(o.N))
	case "FTruncate":
		add("h" + strconv.Itoa(o.H))
		add(strconv.FormatInt(o.Size, 10))
	case "FChmod":
		add("h" + strconv.Itoa(o.H))
		add(fmt.Sprintf("%#o", o.Perm))
	case "FChown":
		add("h" + strconv.Itoa(o.H))
		add(strconv.Itoa(o.Uid))
		add(strconv.Itoa(o.Gid))
	case "FReadDir", "FReaddirnames":
		add("h" + strconv.Itoa(o.H))
		add(strconv.Itoa(o.N))
	case "FStat", "FSync", "FChdir", "FClose", "FName":
		add("h" + strconv.Itoa(o.H))
	default:
		if o.P != "" || o.Q == "" {
			add(strconv.Quote(o.P))
		}

		if o.Q != "" {
			add(strconv.Quote(o.Q))
		}
	}

	b.WriteByte(')')

	return b.String()
}

// FlagString renders open flags.
func FlagString(f int) string {
	var parts []string

	switch f & (os.O_WRONLY | os.O_RDWR) {
	case os.O_WRONLY:
		parts = append(parts, "O_WRONLY")
	case os.O_RDWR:
		parts = append(parts, "O_RDWR")
	case os.O_WRONLY | os.O_RDWR:
		parts = append(parts, "O_WRONLY|O_RDWR")
	default:
		parts = append(parts, "O_RDONLY")
	}

	for _, x := range []struct {
		f int
		n string
	}{{os.O_APPEND, "O_APPEND"}, {os.O_CREATE, "O_CREATE"}, {os.O_EXCL, "O_EXCL"}, {os.O_TRUNC, "O_TRUNC"}} {
		if f&x.f != 0 {
			parts = append(parts, x.n)
		}
	}

	return strings.Join(parts, "|")
}

// ZeroTime as Size of a Chtimes op stands for the zero time.Time.
const ZeroTime = -1 << 62

// MaxHandles is the size of the handle table of an Env.
const MaxHandles = 8

// Env is what an Op is applied to: a file system and a handle table.
type Env struct {
	VFS   avfs.VFS
	H     [MaxHandles]avfs.File
	IsDir [MaxHandles]bool
	// Users resolves a uid for SetUser (nil: not supported).
	Users func(uid int) avfs.UserReader
	// LastTemp is the name produced by the last successful CreateTemp / MkdirTemp.
	LastTemp string
	// NoProbe: the executor itself calls no File method (no Stat after open, no offset probe),
	// for checks that count or fail every primitive (FailFS).
	NoProbe bool
	// ErrPaths adds the Path / Old / New fields of PathError and LinkError to the result data.
	ErrPaths bool
}

// Result of an Op: error class and canonical data.
type Result struct {
	Err  string `json:"e"`
	Data string `json:"d,omitempty"`
}

func (r Result) String() string {
	if r.Data == "" {
		return r.Err
	}

	return r.Err + " " + r.Data
}

// ErrClass maps an error to its comparable class.
func ErrClass(err error) string {
	if err == nil {
		return "ok"
	}

	if err == io.EOF {
		return "EOF"
	}

	var le avfs.LinuxError
	if errors.As(err, &le) {
		return errnoName(uintptr(le))
	}

	var en syscall.Errno
	if errors.As(err, &en) {
		return errnoName(uintptr(en))
	}

	var we avfs.WindowsError
	if errors.As(err, &we) {
		return "W" + strconv.Itoa(int(we))
	}

	if errors.Is(err, fs.ErrClosed) || errors.Is(err, avfs.ErrFileClosing) || strings.Contains(err.Error(), "use of closed file") {
		return "closed"
	}

	if errors.Is(err, avfs.ErrNegativeOffset) || strings.Contains(err.Error(), "negative offset") {
		return "negoff"
	}

	if errors.Is(err, fs.ErrInvalid) {
		return "invalid"
	}

	if errors.Is(err, filepath.ErrBadPattern) {
		return "badpattern"
	}

	if strings.Contains(err.Error(), "EvalSymlinks: too many links") {
		return "ELOOP" // filepath.EvalSymlinks reports its own loop error
	}

	if errors.Is(err, avfs.ErrPatternHasSeparator) || strings.Contains(err.Error(), "pattern contains path separator") {
		return "patsep"
	}

	if errors.Is(err, fs.ErrExist) {
		return "EEXIST"
	}

	if errors.Is(err, fs.ErrNotExist) {
		return "ENOENT"
	}

	if errors.Is(err, fs.ErrPermission) {
		return "EACCES"
	}

	if errors.Is(err, errWalkInjected) {
		return "injected"
	}

	if errors.Is(err, io.ErrUnexpectedEOF) {
		return "UEOF"
	}

	return "other:" + err.Error()
}

var errnoNames = map[uintptr]string{ //nolint:gochecknoglobals // table.
	1: "EPERM", 2: "ENOENT", 9: "EBADF", 13: "EACCES", 17: "EEXIST", 18: "EXDEV", 20: "ENOTDIR",
	21: "EISDIR", 22: "EINVAL", 27: "EFBIG", 36: "ENAMETOOLONG", 39: "ENOTEMPTY", 40: "ELOOP",
	16: "EBUSY", 26: "ETXTBSY", 28: "ENOSPC", 30: "EROFS", 31: "EMLINK", 5: "EIO", 12: "ENOMEM",
}

func errnoName(n uintptr) string {
	if s, ok := errnoNames[n]; ok {
		return s
	}

	return "E" + strconv.Itoa(int(n))
}

var errWalkInjected = errors.New("injected walk error") //nolint:gochecknoglobals // sentinel.

func permOf(m fs.FileMode) string {
	s := fmt.Sprintf("%04o", uint32(m.Perm()))

	if m&fs.ModeSetuid != 0 {
		s += "u"
	}

	if m&fs.ModeSetgid != 0 {
		s += "g"
	}

	if m&fs.ModeSticky != 0 {
		s += "t"
	}

	return s
}

func typeChar(m fs.FileMode) string {
	switch {
	case m.IsDir():
		return "d"
	case m&fs.ModeSymlink != 0:
		return "l"
	case m.IsRegular():
		return "f"
	default:
		return "?"
	}
}

// InfoString is the comparable part of a FileInfo.
func InfoString(vfs avfs.VFS, info fs.FileInfo) string {
	if info == nil {
		return "nil"
	}

	m := info.Mode()
	s := info.Name() + " " + typeChar(m) + " " + permOf(m)

	func() {
		defer func() { _ = recover() }()

		st := vfs.ToSysStat(info)
		s += " " + strconv.Itoa(st.Uid()) + ":" + strconv.Itoa(st.Gid())

		if m.IsRegular() {
			s += " nlink=" + strconv.FormatUint(st.Nlink(), 10)
		}
	}()

	if !m.IsDir() {
		s += " size=" + strconv.FormatInt(info.Size(), 10)
	}

	return s
}

// ToMode converts numeric permission bits (low 12 bits as in chmod(2)) to fs.FileMode.
func ToMode(p uint32) fs.FileMode {
	m := fs.FileMode(p & 0o777)

	if p&0o4000 != 0 {
		m |= fs.ModeSetuid
	}

	if p&0o2000 != 0 {
		m |= fs.ModeSetgid
	}

	if p&0o1000 != 0 {
		m |= fs.ModeSticky
	}

	return m
}

func (e *Env) file(h int) avfs.File {
	if h < 0 || h >= MaxHandles {
		return nil
	}

	return e.H[h]
}

func (e *Env) setHandle(h int, f avfs.File) {
	if h < 0 || h >= MaxHandles {
		if f != nil {
			f.Close()
		}

		return
	}

	if old := e.H[h]; old != nil && !isNilFile(old) && !e.NoProbe {
		old.Close()
	}

	e.H[h] = f
	e.IsDir[h] = false

	if f != nil && !isNilFile(f) && !e.NoProbe {
		if st, err := f.Stat(); err == nil && st != nil {
			e.IsDir[h] = st.IsDir()
		}
	}
}

func isNilFile(f avfs.File) bool {
	if f == nil {
		return true
	}

	defer func() { _ = recover() }()
	// typed nil pointers returned by the in-memory file systems on error.
	return fmt.Sprintf("%p", f) == "0x0"
}

// CloseAll closes every open handle.
func (e *Env) CloseAll() {
	for i := range e.H {
		if e.H[i] != nil && !isNilFile(e.H[i]) {
			e.H[i].Close()
		}

		e.H[i] = nil
	}
}

func offProbe(f avfs.File) string {
	pos, err := f.Seek(0, io.SeekCurrent)
	if err != nil {
		return " @" + ErrClass(err)
	}

	return " @" + strconv.FormatInt(pos, 10)
}

// Exec applies op to env.
func (e *Env) Exec(op Op) Result {
	v := e.VFS

	res := func(err error, data string) Result {
		if e.ErrPaths && err != nil {
			var (
				pe *fs.PathError
				le *os.LinkError
			)

			if errors.As(err, &pe) {
				data += " errpath=" + strconv.Quote(pe.Path)
			} else if errors.As(err, &le) {
				data += " errold=" + strconv.Quote(le.Old) + " errnew=" + strconv.Quote(le.New)
			}
		}

		return Result{Err: ErrClass(err), Data: data}
	}

	switch op.K {
	case "Mkdir":
		return res(v.Mkdir(op.P, ToMode(op.Perm)), "")
	case "MkdirAll":
		return res(v.MkdirAll(op.P, ToMode(op.Perm)), "")
	case "OpenFile", "Create", "Open":
		var (
			f   avfs.File
			err error
		)

		switch op.K {
		case "OpenFile":
			f, err = v.OpenFile(op.P, op.Flag, ToMode(op.Perm))
		case "Create":
			f, err = v.Create(op.P)
		default:
			f, err = v.Open(op.P)
		}

		if err != nil {
			e.setHandle(op.H, nil)

			return res(err, "")
		}

		e.setHandle(op.H, f)

		return res(nil, "")
	case "CreateTemp":
		if op.Hint != "" {
			return e.refCreateTemp(op)
		}

		f, err := v.CreateTemp(op.P, op.Q)
		if err != nil {
			e.setHandle(op.H, nil)

			return res(err, "")
		}

		e.LastTemp = f.Name()
		e.setHandle(op.H, f)

		return res(nil, tempShape(v, op.P, op.Q, f.Name()))
	case "MkdirTemp":
		if op.Hint != "" {
			return e.refMkdirTemp(op)
		}

		name, err := v.MkdirTemp(op.P, op.Q)
		if err != nil {
			return res(err, "")
		}

		e.LastTemp = name

		return res(nil, tempShape(v, op.P, op.Q, name))
	case "WriteFile":
		return res(v.WriteFile(op.P, []byte(op.Data), ToMode(op.Perm)), "")
	case "ReadFile":
		b, err := v.ReadFile(op.P)

		return res(err, strconv.Quote(string(b)))
	case "ReadDir":
		ents, err := v.ReadDir(op.P)

		return res(err, entriesString(ents, false))
	case "Remove":
		return res(v.Remove(op.P), "")
	case "RemoveAll":
		return res(v.RemoveAll(op.P), "")
	case "Rename":
		return res(v.Rename(op.P, op.Q), "")
	case "Link":
		return res(v.Link(op.P, op.Q), "")
	case "Symlink":
		return res(v.Symlink(op.P, op.Q), "")
	case "Readlink":
		s, err := v.Readlink(op.P)

		return res(err, s)
	case "Truncate":
		return res(v.Truncate(op.P, op.Size), "")
	case "Chmod":
		return res(v.Chmod(op.P, ToMode(op.Perm)), "")
	case "Chown":
		return res(v.Chown(op.P, op.Uid, op.Gid), "")
	case "Lchown":
		return res(v.Lchown(op.P, op.Uid, op.Gid), "")
	case "Chtimes":
		t := time.Unix(op.Size, 0)
		if op.Size == ZeroTime {
			// the zero time.Time: "leave unchanged" for os.Chtimes.
			t = time.Time{}
		}

		return res(v.Chtimes(op.P, t, t), "")
	case "Chdir":
		return res(v.Chdir(op.P), "")
	case "Getwd":
		s, err := v.Getwd()

		return res(err, s)
	case "Stat":
		info, err := v.Stat(op.P)
		if err != nil {
			return res(err, "")
		}

		return res(nil, InfoString(v, info))
	case "Lstat":
		info, err := v.Lstat(op.P)
		if err != nil {
			return res(err, "")
		}

		return res(nil, InfoString(v, info))
	case "EvalSymlinks":
		s, err := v.EvalSymlinks(op.P)
		if err != nil {
			return res(err, "")
		}

		return res(nil, s)
	case "Abs":
		s, err := v.Abs(op.P)

		return res(err, s)
	case "Glob":
		m, err := v.Glob(op.P)
		if m == nil {
			return res(err, "nil")
		}

		return res(err, strings.Join(m, ","))
	case "WalkDir":
		return e.walk(op)
	case "Sub":
		sub, err := v.Sub(op.P)
		if err == nil && sub != nil {
			// the view is used once: what it shows of its own root (the entries of the directory it was made of).
			root := string(sub.PathSeparator())
			if cwd, err := sub.Getwd(); err == nil {
				root = avfs.VolumeName(sub, cwd) + root // the volume the view was made on
			}

			_, serr := sub.Stat(root)
			ents, rerr := sub.ReadDir(root)

			// the other volumes of the file system are outside the view.
			leaked := 0

			if vm, ok := v.(avfs.VolumeManager); ok {
				for _, vol := range vm.VolumeList() {
					if vol+string(sub.PathSeparator()) == root {
						continue
					}

					if _, err := sub.Stat(vol + string(sub.PathSeparator())); err == nil {
						leaked++
					}
				}
			}

			return res(nil, "root:"+ErrClass(serr)+" list:"+ErrClass(rerr)+" "+entriesString(ents, true)+" other-volumes-visible:"+strconv.Itoa(leaked))
		}

		return res(err, "")
	case "TempDir":
		return res(nil, v.TempDir())
	case "Exists":
		ok, err := avfs.Exists(v, op.P)

		return res(err, strconv.FormatBool(ok))
	case "DirExists":
		ok, err := avfs.DirExists(v, op.P)

		return res(err, strconv.FormatBool(ok))
	case "IsDir":
		ok, err := avfs.IsDir(v, op.P)

		return res(err, strconv.FormatBool(ok))
	case "IsEmpty":
		ok, err := avfs.IsEmpty(v, op.P)

		return res(err, strconv.FormatBool(ok))
	case "SetUMask":
		return res(v.SetUMask(fs.FileMode(op.Perm)), "")
	case "UMask":
		return res(nil, fmt.Sprintf("%#o", uint32(v.UMask())))
	case "SetUser":
		if e.Users == nil {
			return Result{Err: "nouser"}
		}

		u := e.Users(op.Uid)
		if u == nil {
			return Result{Err: "nouser"}
		}

		return res(v.SetUser(u), "")
	case "User":
		return res(nil, strconv.Itoa(v.User().Uid())+":"+strconv.Itoa(v.User().Gid()))
	}

	if strings.HasPrefix(op.K, "F") {
		return e.execFile(op)
	}

	return Result{Err: "unknown-op:" + op.K}
}

func (e *Env) execFile(op Op) Result {
	f := e.file(op.H)
	if f == nil {
		return Result{Err: "nohandle"}
	}

	res := func(err error, data string) Result {
		if e.ErrPaths && err != nil {
			// the path a handle method reports in its error is the name the file was opened with.
			var pe *fs.PathError
			if errors.As(err, &pe) {
				data += " errpath=" + strconv.Quote(pe.Path)
			}
		}

		return Result{Err: ErrClass(err), Data: data}
	}
	probe := func() string {
		if e.IsDir[op.H] || e.NoProbe {
			return ""
		}

		return offProbe(f)
	}

	switch op.K {
	case "FRead":
		if op.N < 0 {
			op.N = 0
		}

		b := make([]byte, op.N)
		n, err := f.Read(b)

		if n < 0 || n > len(b) {
			return res(err, fmt.Sprintf("n=%d out of range", n))
		}

		return res(err, fmt.Sprintf("n=%d %q", n, b[:n])+probe())
	case "FReadAt":
		if op.N < 0 {
			op.N = 0
		}

		b := make([]byte, op.N)
		n, err := f.ReadAt(b, op.Size)

		if n < 0 || n > len(b) {
			return res(err, fmt.Sprintf("n=%d out of range", n))
		}

		return res(err, fmt.Sprintf("n=%d %q", n, b[:n])+probe())
	case "FWrite":
		n, err := f.Write([]byte(op.Data))

		return res(err, fmt.Sprintf("n=%d", n)+probe())
	case "FWriteString":
		n, err := f.WriteString(op.Data)

		return res(err, fmt.Sprintf("n=%d", n)+probe())
	case "FWriteAt":
		n, err := f.WriteAt([]byte(op.Data), op.Size)

		return res(err, fmt.Sprintf("n=%d", n)+probe())
	case "FSeek":
		pos, err := f.Seek(op.Size, op.N)
		if err != nil {
			return res(err, probe())
		}

		return res(err, fmt.Sprintf("pos=%d", pos)+probe())
	case "FTruncate":
		return res(f.Truncate(op.Size), probe())
	case "FStat":
		info, err := f.Stat()
		if err != nil {
			return res(err, "")
		}

		return res(nil, InfoString(e.VFS, info))
	case "FSync":
		return res(f.Sync(), "")
	case "FChmod":
		return res(f.Chmod(ToMode(op.Perm)), "")
	case "FChown":
		return res(f.Chown(op.Uid, op.Gid), "")
	case "FChdir":
		return res(f.Chdir(), "")
	case "FClose":
		return res(f.Close(), "")
	case "FName":
		return res(nil, f.Name())
	case "FReadDir":
		ents, err := f.ReadDir(op.N)

		return res(err, entriesString(ents, true))
	case "FReaddirnames":
		names, err := f.Readdirnames(op.N)
		sorted := append([]string(nil), names...)
		sort.Strings(sorted)

		return res(err, strconv.Itoa(len(names))+":"+strings.Join(sorted, ","))
	}

	return Result{Err: "unknown-op:" + op.K}
}

func entriesString(ents []fs.DirEntry, sortThem bool) string {
	parts := make([]string, 0, len(ents))
	for _, d := range ents {
		parts = append(parts, d.Name()+":"+typeChar(d.Type()))
	}

	if sortThem {
		sort.Strings(parts)

		return strconv.Itoa(len(parts)) + ":" + strings.Join(parts, ",")
	}

	return strings.Join(parts, ",")
}

// tempShape checks that a temporary name has the documented shape and returns "shape-ok"
// or a description of the defect.
func tempShape(v avfs.VFS, dir, pattern, name string) string {
	if dir == "" {
		dir = v.TempDir()
	}

	prefix, suffix := pattern, ""
	if i := strings.LastIndexByte(pattern, '*'); i >= 0 {
		prefix, suffix = pattern[:i], pattern[i+1:]
	}

	base := v.Base(name)
	d := v.Dir(name)

	if v.Clean(d) != v.Clean(dir) {
		return fmt.Sprintf("temp name %q not in dir %q", name, dir)
	}

	if !strings.HasPrefix(base, prefix) || !strings.HasSuffix(base, suffix) || len(base) <= len(prefix)+len(suffix) {
		return fmt.Sprintf("temp name %q does not match pattern %q", name, pattern)
	}

	mid := base[len(prefix) : len(base)-len(suffix)]
	for _, c := range mid {
		if c < '0' || c > '9' {
			return fmt.Sprintf("temp name %q: random part %q is not numeric", name, mid)
		}
	}

	return "shape-ok"
}

// refCreateTemp runs on the reference side: the platform's own CreateTemp, then the
// result is renamed to the name the system under test chose so that the trees stay comparable.
func (e *Env) refCreateTemp(op Op) Result {
	v := e.VFS

	f, err := v.CreateTemp(op.P, op.Q)
	if err != nil {
		e.setHandle(op.H, nil)

		return Result{Err: ErrClass(err)}
	}

	shape := tempShape(v, op.P, op.Q, f.Name())
	if op.Hint != "-" && f.Name() != op.Hint {
		if err := v.Rename(f.Name(), op.Hint); err != nil {
			shape = "ref-rename:" + ErrClass(err)
		}
	}

	e.setHandle(op.H, f)

	return Result{Err: "ok", Data: shape}
}

func (e *Env) refMkdirTemp(op Op) Result {
	v := e.VFS

	name, err := v.MkdirTemp(op.P, op.Q)
	if err != nil {
		return Result{Err: ErrClass(err)}
	}

	shape := tempShape(v, op.P, op.Q, name)
	if op.Hint != "-" && name != op.Hint {
		if err := v.Rename(name, op.Hint); err != nil {
			shape = "ref-rename:" + ErrClass(err)
		}
	}

	return Result{Err: "ok", Data: shape}
}

// walk runs WalkDir with a callback that interferes at visit index op.Skip.
func (e *Env) walk(op Op) Result {
	var visits []string

	count := 0
	err := e.VFS.WalkDir(op.P, func(path string, d fs.DirEntry, err error) error {
		count++

		if count > 5000 {
			return errors.New("walk budget exceeded")
		}

		item := path
		if d != nil {
			item += ":" + typeChar(d.Type())
		} else {
			item += ":nil"
		}

		if err != nil {
			item += "!" + ErrClass(err)
		}

		visits = append(visits, item)

		if op.Skip > 0 && count == op.Skip {
			switch op.Act {
			case 1:
				return fs.SkipDir
			case 2:
				return fs.SkipAll
			case 3:
				return errWalkInjected
			}
		}

		if err != nil {
			switch op.Act {
			case 4:
				return err
			case 5:
				return fs.SkipDir
			case 6:
				return fs.SkipAll
			}
		}

		return nil
	})

	return Result{Err: ErrClass(err), Data: strings.Join(visits, ",")}
}
