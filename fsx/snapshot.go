package fsx

import (
	"fmt"
	"io/fs"
	"sort"
	"strconv"
	"strings"

	"github.com/avfs/avfs"
)

// Node is one entry of a parsed snapshot.
type Node struct {
	Path   string
	Type   byte // 'd', 'f', 'l', '?'
	Perm   string
	Uid    int
	Gid    int
	Size   int64
	Nlink  uint64
	Class  int // index (in the sorted path list) of the first path that is the same file
	Data   string
	Target string
	Mtime  int64
	Err    string // error met while observing this entry
}

// Snap is an observation of a whole tree through the public API only.
type Snap struct {
	Nodes    []Node
	Problems []string // API-level inconsistencies met during the walk (C05)
	Over     bool     // node budget exceeded
}

// SnapOpts selects optional fields.
type SnapOpts struct {
	Mtime   bool
	NoData  bool
	Budget  int
	DirSize bool
	// NoOwner leaves uid and gid out (file systems that advertise no identity manager).
	NoOwner bool
	// Tops: when the root itself cannot be observed (OrefaFS cannot Lstat or list "/"),
	// the walk starts at root+name for each of these names that exists.
	Tops []string
}

// Snapshot walks vfs from root using Lstat, ReadDir, ReadFile, Readlink and SameFile.
// The walk is the harness's own (it never trusts WalkDir) and is bounded.
func Snapshot(vfs avfs.VFS, root string, o SnapOpts) *Snap {
	if Guard == nil {
		return snapshot(vfs, root, o)
	}

	// under the simulator's step budget: a library call that never returns during the observation
	// (an endless retry, a cycle) ends the observation instead of the worker.
	var s *Snap

	if why := Guard(func() { s = snapshot(vfs, root, o) }); why != "" || s == nil {
		return &Snap{Problems: []string{"the observation of the tree did not return: " + why}}
	}

	return s
}

// Guard, when set, runs an observation under the simulator (step budget, panic recovery) and returns ""
// or why it did not complete.
var Guard func(f func()) string //nolint:gochecknoglobals // set once at start by package sim.

func snapshot(vfs avfs.VFS, root string, o SnapOpts) *Snap {
	s := &Snap{}
	if o.Budget == 0 {
		o.Budget = 600
	}

	type fileRef struct {
		idx  int
		info fs.FileInfo
	}

	var files []fileRef

	sep := string(vfs.PathSeparator())

	var walk func(path string, depth int)

	walk = func(path string, depth int) {
		if len(s.Nodes) >= o.Budget || depth > 40 {
			s.Over = true

			return
		}

		info, err := vfs.Lstat(path)
		if err != nil {
			s.Nodes = append(s.Nodes, Node{Path: path, Type: '!', Err: "lstat:" + ErrClass(err)})

			return
		}

		m := info.Mode()
		n := Node{Path: path, Type: typeChar(m)[0], Perm: permOf(m)}

		func() {
			defer func() {
				if r := recover(); r != nil {
					n.Err = "sysstat-panic"
				}
			}()

			st := vfs.ToSysStat(info)
			n.Uid, n.Gid, n.Nlink = st.Uid(), st.Gid(), st.Nlink()

			if o.NoOwner {
				n.Uid, n.Gid = 0, 0
			}
		}()

		if o.Mtime {
			n.Mtime = info.ModTime().UnixNano()
		}

		switch n.Type {
		case 'f':
			n.Size = info.Size()

			if !o.NoData {
				b, err := vfs.ReadFile(path)
				if err != nil {
					n.Err = "readfile:" + ErrClass(err)
				} else {
					n.Data = string(b)
					if int64(len(b)) != n.Size {
						s.Problems = append(s.Problems, fmt.Sprintf("%s: Lstat size %d but ReadFile returned %d bytes", path, n.Size, len(b)))
					}
				}
			}

			files = append(files, fileRef{len(s.Nodes), info})
			s.Nodes = append(s.Nodes, n)
		case 'l':
			n.Size = info.Size()

			t, err := vfs.Readlink(path)
			if err != nil {
				n.Err = "readlink:" + ErrClass(err)
			}

			n.Target = t
			s.Nodes = append(s.Nodes, n)
		case 'd':
			if o.DirSize {
				n.Size = info.Size()
			}

			self := len(s.Nodes)
			s.Nodes = append(s.Nodes, n)

			ents, err := vfs.ReadDir(path)
			if err != nil {
				s.Nodes[self].Err = "readdir:" + ErrClass(err)

				return
			}

			prev := ""

			for i, d := range ents {
				name := d.Name()
				if i > 0 && name <= prev {
					s.Problems = append(s.Problems, fmt.Sprintf("%s: ReadDir not strictly sorted (%q after %q)", path, name, prev))
				}

				prev = name

				child := path + sep + name
				if path != "" && vfs.IsPathSeparator(path[len(path)-1]) {
					// (a Windows-typed instance knows two separators: "/" + name, not "/" + "\\" + name)
					child = path + name
				}

				before := len(s.Nodes)
				walk(child, depth+1)

				if before < len(s.Nodes) {
					c := s.Nodes[before]
					if c.Type == '!' {
						s.Problems = append(s.Problems, fmt.Sprintf("%s listed by ReadDir of its parent but %s", child, c.Err))
					} else if typeChar(d.Type())[0] != c.Type {
						s.Problems = append(s.Problems, fmt.Sprintf("%s: ReadDir type %s but Lstat type %c", child, typeChar(d.Type()), c.Type))
					}
				}

				if s.Over {
					return
				}
			}
		default:
			s.Nodes = append(s.Nodes, n)
		}
	}

	if _, err := vfs.Lstat(root); err != nil && len(o.Tops) > 0 {
		tops := append([]string(nil), o.Tops...)
		sort.Strings(tops)

		for _, name := range tops {
			p := root + name
			if root == "" || !vfs.IsPathSeparator(root[len(root)-1]) {
				p = root + sep + name
			}

			if _, err := vfs.Lstat(p); err == nil {
				walk(p, 1)
			}
		}
	} else {
		walk(root, 0)
	}

	// SameFile classes and link-count consistency.
	for i, fi := range files {
		cls := fi.idx
		same := 1

		for j, fj := range files {
			if i == j {
				continue
			}

			if vfs.SameFile(fi.info, fj.info) {
				same++

				if fj.idx < cls {
					cls = fj.idx
				}
			}
		}

		nd := &s.Nodes[fi.idx]
		nd.Class = cls

		if !s.Over && uint64(same) != nd.Nlink {
			s.Problems = append(s.Problems, fmt.Sprintf("%s: Nlink %d but %d paths are SameFile with it", nd.Path, nd.Nlink, same))
		}

		if cls != fi.idx {
			first := &s.Nodes[cls]
			if first.Data != nd.Data || first.Size != nd.Size || first.Perm != nd.Perm || first.Uid != nd.Uid || first.Gid != nd.Gid {
				s.Problems = append(s.Problems, fmt.Sprintf("%s and %s are SameFile but differ in content or attributes", first.Path, nd.Path))
			}
		}
	}

	if s.Over {
		s.Problems = append(s.Problems, "walk from the root did not terminate within the node budget")
	}

	return s
}

// String renders the snapshot canonically.
func (s *Snap) String() string {
	var b strings.Builder

	for i := range s.Nodes {
		n := &s.Nodes[i]
		b.WriteString(n.line(s))
		b.WriteByte('\n')
	}

	if s.Over {
		b.WriteString("OVER-BUDGET\n")
	}

	return b.String()
}

func (n *Node) line(s *Snap) string {
	var b strings.Builder

	b.WriteString(n.Path)
	b.WriteByte(' ')
	b.WriteByte(n.Type)

	if n.Type == '!' {
		b.WriteString(" " + n.Err)

		return b.String()
	}

	b.WriteString(" " + n.Perm + " " + strconv.Itoa(n.Uid) + ":" + strconv.Itoa(n.Gid))

	switch n.Type {
	case 'f':
		b.WriteString(" size=" + strconv.FormatInt(n.Size, 10) + " nlink=" + strconv.FormatUint(n.Nlink, 10))

		if n.Class >= 0 && n.Class < len(s.Nodes) {
			b.WriteString(" same=" + s.Nodes[n.Class].Path)
		}

		b.WriteString(" data=" + strconv.Quote(n.Data))
	case 'l':
		b.WriteString(" size=" + strconv.FormatInt(n.Size, 10) + " -> " + strconv.Quote(n.Target))
	case 'd':
		if n.Size != 0 {
			b.WriteString(" dsize=" + strconv.FormatInt(n.Size, 10))
		}
	}

	if n.Mtime != 0 {
		b.WriteString(" mtime=" + strconv.FormatInt(n.Mtime, 10))
	}

	if n.Err != "" {
		b.WriteString(" ERR=" + n.Err)
	}

	return b.String()
}

// Lines returns the canonical lines keyed by path.
func (s *Snap) Lines() map[string]string {
	m := make(map[string]string, len(s.Nodes))
	for i := range s.Nodes {
		m[s.Nodes[i].Path] = s.Nodes[i].line(s)
	}

	return m
}

// Diff describes the first differences between two canonical snapshot strings.
func Diff(a, b string) string {
	la := strings.Split(strings.TrimRight(a, "\n"), "\n")
	lb := strings.Split(strings.TrimRight(b, "\n"), "\n")

	ma := map[string]bool{}
	for _, l := range la {
		ma[l] = true
	}

	mb := map[string]bool{}
	for _, l := range lb {
		mb[l] = true
	}

	var out []string

	for _, l := range la {
		if !mb[l] {
			out = append(out, "- "+l)
		}
	}

	for _, l := range lb {
		if !ma[l] {
			out = append(out, "+ "+l)
		}
	}

	sort.SliceStable(out, func(i, j int) bool { return out[i][2:] < out[j][2:] })

	if len(out) > 12 {
		out = append(out[:12], fmt.Sprintf("... %d more", len(out)-12))
	}

	return strings.Join(out, "\n")
}

// Paths returns all paths of the snapshot with the given types ("" = all).
func (s *Snap) Paths(types string) []string {
	var out []string

	for i := range s.Nodes {
		if types == "" || strings.IndexByte(types, s.Nodes[i].Type) >= 0 {
			out = append(out, s.Nodes[i].Path)
		}
	}

	return out
}
