#!/usr/bin/env python3
"""Writes MANIFEST.json from the table below (kept in one place so that it stays valid)."""
import json, subprocess

def sh(c): return subprocess.run(c, shell=True, capture_output=True, text=True).stdout.strip()

hooks = sh("git -C /repo log --format=%H --grep='^verif hook' --reverse").split()

CHECKS = {
 "C15": dict(engine="E2+E3", level="exploration", technique="deterministic simulation: seeded scheduler at lock granularity + reference-model lockstep + porcupine linearizability",
   text="Seeded histories of the eight MemIdm calls over a 6-name pool: sequential runs compared step by step with a two-map reference model (all names and all ids ever handed out re-queried after every step); concurrent runs of 2-4 clients under the serialising scheduler (every RWMutex acquisition is a scheduling point) checked for linearizability against the same model with porcupine. Built with -tags 'verif avfs_setostype': 30% of the runs use a Windows-typed MemIdm (other administrator names). Sampling, not proof.",
   note="trusted: scheduler model of sync.RWMutex (cross-checked by TryLock on every grant), porcupine, the reference model (ids are constrained to be fresh, not predicted)", ref="3/C15"),
}

CHECKS["C07"] = dict(engine="E2", level="exploration", technique="deterministic simulation: seeded scheduler decides every interleaving at lock granularity; deadlock = no runnable client; argument-fault injection",
   text="Every call is executed on a simulated client: the scheduler owns every RWMutex acquisition (hook H1), so a self-deadlock or a lock-order inversion is decided (some client live, none runnable), a busy loop hits the step budget / watchdog and a panic is recovered and reported. Sequential histories draw operands from an adversarial domain on MemFS, OrefaFS, RoFS, BasePathFS and FailFS; concurrent programs of 2-4 clients explore seeded interleavings (uniform, sticky-with-preemption, round-robin, PCT). Concurrent MemIdm programs are run too, and every kernel-lockstep check (C01-C04, C14) reports a call that does not return as a C07 violation. Observations of the tree made by the harness itself run under a budget of lock events. Sampling, not proof.",
   note="trusted: scheduler model of sync.RWMutex (TryLock cross-check), the 20 s no-event watchdog as the definition of a busy loop, sizes bounded to 1 MiB", ref="3/C07")

CHECKS["C06"] = dict(engine="E2", level="exploration", technique="deterministic simulation: seeded interleavings at lock granularity + porcupine linearizability against the sequential implementation",
   text="Programs of 2-4 clients x 1-3 namespace calls on one shared tree (MemFS through per-client Sub views, or one OrefaFS) run under the serialising scheduler; every RWMutex acquisition is a scheduling point decided from the tape. The history (invoke/return by global event counter) plus a final observation of the tree and all handles is checked with porcupine against the same implementation executed sequentially (fresh instance per candidate order). Two recorded root causes (acting on a directory/name that a concurrent call removes or moves) are known findings; 90% of the runs drop the calls that would expose them so that the rest of the space is checked strictly. Program shapes: uniform, focused on one directory, with handles opened before the concurrent phase, and pair mode (two clients, one call each, every template equally likely). A Stat/Lstat/Readlink that answers with an object type or link target no sequential order yields is reported on its own, outside the recorded race families. Sampling, not proof.",
   note="trusted: scheduler model of sync.RWMutex (TryLock cross-check), porcupine, equivalence of sequential orders with identical observable state; sequential defects are out of scope here (C01)", ref="3/C06")

CHECKS["C08"] = dict(engine="E2", level="exploration", technique="deterministic simulation coupled with the Go race detector: seeded schedules, scheduler hand-offs hidden from the detector",
   text="Programs of 2-8 clients on a shared MemFS (per-client Sub views, distinct users, umask/cwd setters), a shared OrefaFS, a shared MemIdm, with own handles and a handle shared by all clients, run under the serialising scheduler in a -race build. The scheduler's own hand-offs are wrapped in runtime.RaceDisable/RaceEnable and its client-side code is go:norace, so the detector sees exactly avfs's own happens-before edges: two conflicting accesses that both occur in a run and are not ordered by avfs's locks are reported regardless of timing, and the same seed reports the same race. Shrinking and replay run candidates in fresh processes (the detector reports a given race once per process). Sampling, not proof.",
   note="trusted: Go race detector (ThreadSanitizer); visibility of spawn/join edges as in a user program; interleavings at lock granularity (what lies between two lock operations of a client is exactly what the detector judges)", ref="3/C08")

CHECKS["C05"] = dict(engine="E2+E3", level="exploration", technique="deterministic simulation with an invariant monitor after every step (internal graph walk + API walk + effect confinement)",
   text="Sequential histories biased to aliasing operands (root, self, ancestor/descendant, hard-link aliases, symlinked paths, nested identical names) on MemFS and OrefaFS, each call executed on a simulated client, with the monitor evaluated after every call; concurrent programs under the seeded scheduler with the monitor evaluated on the final tree. Monitor: internal structure walk (hook H4), API-level walk (termination, sorted duplicate-free listings, listed iff Lstat, Nlink = SameFile class size, identical content/attributes through all links), failed calls leave the snapshot unchanged (RemoveAll excepted), successful calls change only the closure of their operands. Sampling, not proof.",
   note="trusted: the harness's own resolver for the closure of operands; snapshot through the public API; VerifCheck walkers (verif-tagged, in /repo); both OS types are covered for the Linux type only in this build (Windows type: C17)", ref="3/C05")

CHECKS["C09"] = dict(engine="E3", level="exploration", technique="deterministic twin simulation: wrapper vs base, full base snapshot (with mtimes) around every call",
   text="Seeded histories of every VFS and File method (OpenFile with arbitrary flag combinations, handle methods on returned files, Sub followed by calls on the result, recursively) through rofs.New(base) over MemFS (with symbolic and hard links) and OrefaFS bases prepared by a seeded direct history. Around every call the whole base snapshot including modification times must be identical; mutators must fail with a permission-class error; read-only calls must equal the same call on the base (twin handles). Sampling, not proof.",
   note="no schedule or fault dimension exists in the statement; the simulator contributes seeded world, workload, shrinking, replay. Chdir/SetUMask forwarding is outside the statement's list", ref="3/C09")
CHECKS["C10"] = dict(engine="E3", level="exploration", technique="deterministic twin simulation with adversarial path strings: BasePathFS(base,B) vs standalone twin, outside-B snapshot around every call",
   text="Seeded histories of path-taking and handle calls with paths over {names, '.', '..', '/', '//', B's own name} absolute and relative, Chdir mixed in, the base's working directory left inside B, outside B or in a directory whose name extends B's, issued through basepathfs.New(base,'/a') and on a standalone twin whose root holds B's content. After every call: everything outside B in the base (with mtimes, and B's own existence) unchanged; outcome, data, Getwd/Abs/Glob results and the paths embedded in PathError/LinkError equal the twin's after normalisation to absolute clean virtual paths; File.Name is the virtual path opened; virtual tree equals the twin's tree. In 30% of the runs B is passed to the constructor in an unclean spelling. Sampling, not proof.",
   note="twin = same implementation, so shared sequential defects cancel (C01's). Narrow relaxations listed in DESIGN.md section 8 (error precedence when the root is renamed, handle names derived from the opening string, empty path)", ref="3/C10")

CHECKS["C11"] = dict(engine="E3", level="exploration", technique="deterministic twin simulation: parent + Sub views as clients interleaved at call granularity vs a twin driven with prefixed paths",
   text="A MemFS parent and 1-3 Sub views (of '/', of subdirectories, nested) act as clients whose whole calls are interleaved by the tape; each uses symlink-free absolute paths (with '.', '..', doubled separators) and, after its own Chdir, relative paths, with SetUser/SetUMask/Chdir mixed in at arbitrary instants. Every call is mirrored on a twin MemFS with the view's directory prefixed under the acting client's user and umask. After every call: same outcome and data, parent tree = twin tree seen by administrator observers (visibility and confinement), and user/umask/cwd of every client are what that client itself set. Sampling, not proof.",
   note="calls that would remove/move a view's directory or change the permissions of its proper ancestors are replaced by queries (the statement presumes the directory stays; a view is chroot-like and does not look above its root). A failed RemoveAll is resynchronised (documented partial effect).", ref="3/C11")

CHECKS["C12"] = dict(engine="E3", level="fault_enumeration", technique="deterministic simulation with FailFS as fault injector: every 'fail the k-th invocation of primitive F' plan of each sampled history, plus no-fault and read-only plans, against a twin base",
   text="For each seeded history (5-25 VFS and File calls, composites, objects returned by FailFS followed) on FailFS over MemFS or OrefaFS: plan 0 (no failure function installed) must equal the same history on a twin base call by call and in the final tree; a recording plan checks that every call consults the failure function and lists the invocations; then EVERY plan (F,k) is executed: the call in which the fault fires must fail (with exactly the injected error when the call is that primitive), the base snapshot with modification times must be unchanged around a failed primitive call, and the rest of the history must equal the twin on which that call was skipped; composites must fail for the primitives of the statement's table; under ReadOnlyFunc the base snapshot never changes. Exhaustive in (F,k) per history, sampled over histories.",
   note="trusted: the twin base (same implementation); after a fault inside a composite the run is cut (earlier primitives of the composite had their effect); Glob ignores I/O errors by contract", ref="3/C12")

CHECKS["C16"] = dict(engine="E3", level="fault_enumeration", technique="deterministic simulation with fault injection at every I/O step of a copy: FailFS single-fault plans on both sides + simulated-disk decorator, exhaustive per scenario",
   text="Scenarios (size around the 32 KiB buffer boundary, permission bits, source and destination among MemFS, OrefaFS, BasePathFS, RoFS, OsFS on a tmpfs scratch directory, hasher or none, existing destination) for CopyFile, CopyFileHash and HashFile. A recording fault-free run lists the primitives invoked on each side; then EVERY single-fault plan (side, primitive F, k-th invocation) through FailFS is executed, plus simulated-disk faults (short reads, a write that stores n bytes then fails, short write without error, Close and Sync errors). Oracle: nil error implies destination bytes = source bytes, equal permission bits, digest = SHA-256 of the bytes; a fired fault on open/read/write/sync/stat/chmod/destination close implies a non-nil error; short reads must not change the result. A concurrent variant runs 2-3 copies at once under the seeded scheduler (shared buffer pool).",
   note="trusted: read-back through the underlying file systems, crypto/sha256; a Close error of the source handle may be ignored", ref="3/C16")

CHECKS["C17"] = dict(engine="E3", level="exploration", technique="deterministic twin simulation across the OS-type configuration: Windows-typed vs Linux-typed instance of the same file system, built with avfs_setostype",
   text="In a simulator built with -tags 'verif avfs_setostype': static checks (reported OS type, separator, volume calls against a set model) and seeded histories of the C01 templates expressed with portable path builders (Join of name components under the instance's own root or volume), issued by the administrator on a Windows-typed and a Linux-typed instance of MemFS or OrefaFS: call-by-call agreement on success/failure, isomorphic trees after ToSlash and volume stripping (names, types, contents, link counts, link targets), Windows-typed errors are WindowsError values. Chown/Lchown are not generated and permission bits/owners are not compared (documented OS-specific). Variants: the Windows-typed twin on a second volume, relative link targets starting with '..', both twins through a BasePathFS rooted at the work directory (its root, '.' and '..' as operands), Sub. Sampling, not proof.",
   note="reference = Linux-typed instance of the same implementation (common sequential defects cancel: C01's); system directories differ by design, histories run below a work directory", ref="3/C17")

CHECKS["C01"] = dict(engine="E1", level="exploration", technique="deterministic lockstep simulation against the real kernel: every call also issued through osfs.OsFS in a chrooted helper process, full tree comparison after every call",
   text="Seeded histories of 5-60 namespace calls by the administrator on MemFS or OrefaFS, operands drawn by class from the current tree (existing file/directory/symlink, missing, missing parent, below a regular file, the root; second operand anywhere, incl. ancestor/descendant/same; names that are prefixes of each other), executed in lockstep through osfs.OsFS inside a helper process chrooted into a private tmpfs directory: same errno class and data call by call, identical trees (names, types, permission bits, owners, sizes, contents, link counts, SameFile classes, link targets) after every call. A twin mode checks unclean paths against their Clean() form. Nine recorded families of known findings; 90% of the runs steer clear of their operand classes. Sampling, not proof.",
   note="reference = Go os package on this kernel's tmpfs as root in a chroot; mtimes, directory sizes/link counts not compared; symlink targets generated clean; OrefaFS owners not compared (no identity manager advertised)", ref="3/C01")

CHECKS["C04"] = dict(engine="E1", level="exploration", technique="deterministic lockstep simulation against the real kernel with a symbolic-link-heavy profile",
   text="MemFS trees built by seeded Mkdir/WriteFile/Symlink histories with targets of every shape (sibling, ../x, ../../x, absolute, self, 2- and 3-cycles, chains of 2-45 links on both sides of the kernel's limit of 40, dangling, below a regular file), links re-targeted mid-history, then 10-40 calls (Stat, Lstat, Open, ReadFile, ReadDir, Chmod, Truncate, Mkdir/WriteFile below, EvalSymlinks, Readlink, Remove, Rename, Lchown, Link) on paths of 1-4 components through those names, each executed in lockstep on the real kernel inside the chrooted helper (filepath.EvalSymlinks for EvalSymlinks): same errno class, same data, same tree after every call. Also Chdir, File.Chdir on handles opened through links, Getwd and relative paths after the current directory moved; the current directory is compared with the kernel's after every successful Chdir. Sampling, not proof.",
   note="reference = Go os/filepath on this kernel's tmpfs in a chroot (absolute targets and '..' at the root mean the same on both sides); EvalSymlinks compared on chains of at most 30 links (filepath.EvalSymlinks has its own limit of 255)", ref="3/C04")

CHECKS["C02"] = dict(engine="E1", level="exploration", technique="deterministic lockstep simulation of file-handle histories against os.File, with close/remove/rename/truncate at arbitrary instants under open handles",
   text="seeded histories of 10-60 calls on 1-3 handles of one MemFS or OrefaFS file (plus a second file and directory handles), every flag combination, the handle calls Read, ReadAt, Write, WriteAt, WriteString, Seek (3 whences and an invalid one), Truncate, Stat, Sync, Chmod, Chown, Chdir, Close, ReadDir(n), Readdirnames(n), interleaved at call granularity with path-level Truncate, Rename, Link, Remove and WriteFile of that file; offsets and sizes around the current size (negative, 0, size-1, size, size+k, 70000); each call in lockstep on the *os.File of the chrooted helper: same byte count, bytes, resulting offset, error class, and equal trees after every call. Sampling, not proof.",
   note="directory batches compared by size and union (directory order is file-system specific); sizes bounded by 70000", ref="3/C02")

CHECKS["C03"] = dict(engine="E1", level="exploration", technique="deterministic lockstep simulation of multi-user call histories against the kernel's access decision (setfsuid/setfsgid/umask in a chrooted helper), with permission changes by the administrator at arbitrary instants",
   text="MemFS trees of depth up to 3 with seeded owner, group and permission bits (incl. sticky) on every node, three MemIdm users u1(g1) u2(g1) u3(g2) acting through their own Sub views with their own umask, and the administrator; seeded histories of 10-50 path-taking calls (Mkdir, MkdirAll, OpenFile with every flag set, Create, WriteFile, ReadFile, ReadDir, Remove, RemoveAll, Rename, Link, Symlink, Truncate, Chmod, Chown, Lchown, Chtimes, Chdir, Stat, Lstat, Readlink) interleaved at call granularity, with administrator chmod/chown of nodes on the users' paths between calls; every call in lockstep under the acting user's ids on the real kernel: same allow/deny and errno, same data, identical trees afterwards (owner, group and mode of created objects included). Sampling, not proof.",
   note="group class = primary group only (the helper drops supplementary groups); Link by non-owners not issued (fs.protected_hardlinks=1 on this kernel); setuid/setgid bits not generated; when RemoveAll fails on both sides the errno is not compared (unspecified traversal order) and the trees are resynchronised; a refusal that only comes from os.RemoveAll opening the parent of its operand is not counted", ref="3/C03")

CHECKS["C14"] = dict(engine="E1", level="exploration", technique="deterministic lockstep simulation of enumeration queries against path/filepath and os on the real kernel, with callback interference at every visit index and unreadable directories as faults",
   text="MemFS and OrefaFS trees of depth up to 4 built by seeded histories (names that prefix each other or are made of pattern characters; on MemFS symbolic links of every shape and directories unreadable or unsearchable for the non-administrator issuing half of the queries), 10-30 queries interleaved with tree mutations: Glob of patterns derived from the tree's own paths (stars, question marks, classes, ranges, negations, escapes, malformed terms, trailing and doubled separators, relative), WalkDir from every kind of root with SkipDir / SkipAll / an error returned at every visit index of walks up to 14 visits (drawn indices beyond) and on visits reporting an unreadable directory, ReadDir, Exists/DirExists/IsDir/IsEmpty; each query in lockstep with filepath.Glob, filepath.WalkDir, os.ReadDir in the chrooted helper under the same uid; helpers compared with what Stat and ReadDir of the same instance imply; each query repeated through RoFS, FailFS and a BasePathFS rooted at an ancestor. Sampling, not proof.",
   note="FailFS.WalkDir hands the walk to the wrapped file system, so failures below the root of a walk cannot be injected through FailFS: unreadable directories come from permissions (MemFS only). Which strings match which names is a pure function (C13).", ref="3/C14")

NA = {
 "C13": "Clean, Join, Split, Dir, Base, IsAbs, Rel, Abs, FromSlash, ToSlash, VolumeName, Match and PathIterator are pure functions of their string arguments and the OS-type constant: there is no schedule, clock, I/O, fault or shared state for a simulator to control; generating strings is input fuzzing, a different technique (DESIGN.md section 4).",
}

PENDING = "check under construction in this round (see DESIGN.md section 0); not claimed until it runs clean on the unchanged tree"

def main():
    props = [json.loads(l)["id"] for l in open("properties.jsonl")]
    checks = []
    for pid, c in CHECKS.items():
        checks.append({
            "property_id": pid,
            "quick_cmd": "./check %s --tier quick" % pid,
            "thorough_cmd": "./check %s --tier thorough" % pid,
            "evidence_file": "/verif/evidence/%s.json" % pid,
            "replay_cmd_template": "./check %s --replay {path}" % pid,
            "engine": c["engine"],
            "level_claimed": {"category": c["level"], "text": c["text"], "design_ref": c["ref"]},
            "level_note": c["note"],
            "technique": c["technique"],
        })
    na = [{"property_id": p, "reason": NA.get(p, PENDING)} for p in props if p not in CHECKS]
    m = {
        "version": 1,
        "setup_cmd": "./check --setup",
        "hooks": {
            "guard": "verif",
            "enable": "go build -tags verif (harness module /verif with replace github.com/avfs/avfs => /repo); -race added for C08, avfs_setostype added for C15 and C17",
            "baseline_off_cmd": "cd /repo && GOFLAGS=-mod=mod GOPROXY=off go test -json -vet=off -count=1 -timeout 25m ./...",
            "source_commits": hooks,
            "add_only": False,
        },
        "engines": [
            {"name": "E1", "path": "/verif/props (kernel lockstep)", "serves_properties": ["C01", "C02", "C03", "C04", "C14"], "kind_free_text": "deterministic simulation, single client, lockstep against the real kernel through osfs.OsFS in a chrooted helper process"},
            {"name": "E2", "path": "/verif/sim/sched.go", "serves_properties": ["C05", "C06", "C07", "C08", "C15"], "kind_free_text": "seeded serialising scheduler at lock-acquisition granularity (hook H1), deadlock/hang/panic verdicts, race detector coupling, porcupine"},
            {"name": "E3", "path": "/verif/props (twins and fault plans)", "serves_properties": ["C09", "C10", "C11", "C12", "C16", "C17"], "kind_free_text": "wrapper/twin lockstep simulation with FailFS and a simulated-disk decorator as fault injectors"},
        ],
        "checks": checks,
        "not_applicable": na,
        "notes": "All checks: ./check <id> [--tier quick|thorough] [--replay file]; VERIF_SEED, VERIF_TIER, VERIF_BUDGET_S honoured. Exit 0 held / 1 VIOLATION / 2 harness or build failure. Known findings: /verif/known_findings.json.",
    }
    json.dump(m, open("MANIFEST.json", "w"), indent=1)

main()
